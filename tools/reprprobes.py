"""Second layer of the search: the same observables under other REPRESENTATIONS and ARGUMENT FORMS of the same inputs.

The properties quantify over "any inputs"; the generators of probes.py produce float64, C-contiguous arrays of O(1) magnitude and
the most common argument form.  Round 3 of the seeded changes (written to escape exactly that) showed what this leaves out:
  * dtype: integer / unsigned / bool arrays holding the same values (np.zeros_like, in-place writes and astype silently truncate);
  * memory layout: Fortran-ordered, transposed and strided views (ravel(order='K'), reshape on views);
  * magnitude: SI-scale numbers (D ~ 1e-9, r ~ 1e-9) that absolute tolerances (np.isclose) treat as zero;
  * optional arguments and rarely used call forms (u_upwind, periodic=..., celleval arities, (N, L) with integers);
  * caches keyed on object identity and dirty flags (a second call after an in-place edit).
Each extra_cXX evaluates the property's own observable on the implementation for such variants and compares it with the result for
the plain float64 / C-contiguous / default-argument form of the same data.  Returns the number of evaluations."""
import random, copy as _copy
import numpy as np
import gen
from common import interior_slices, full_shape

SIDES = [("left", "right"), ("bottom", "top"), ("back", "front")]
INTFACES = {"len": [0, 1, 3, 4, 7, 9, 10], "rad": [0, 1, 3, 4, 7, 9, 10], "ang": [0, 1, 3, 4, 5, 6], "pol": [0, 1, 3]}


def relsc(a, b):
    """scale-aware relative difference (no absolute floor: the data may be of any magnitude)"""
    a = np.asarray(a, dtype=float); b = np.asarray(b, dtype=float)
    if a.shape != b.shape:
        return float("inf")
    if a.size == 0:
        return 0.0
    if not (np.all(np.isfinite(a)) and np.all(np.isfinite(b))):
        return 0.0 if np.array_equal(a, b, equal_nan=True) else float("inf")
    s = max(float(np.max(np.abs(a))), float(np.max(np.abs(b))))
    return 0.0 if s == 0 else float(np.max(np.abs(a - b))) / s


def int_faces(cname, nmax=3, offset=0):
    """integer-valued face positions (adjacent pairs with odd sums, so centres are half-integers)"""
    out = []
    for a, k in enumerate(gen.AXKIND[cname]):
        pool = INTFACES[k]
        n = min(nmax if gen.DIM[cname] < 3 or a == 0 else 2, len(pool) - 1)
        out.append(np.array(pool[offset:offset + n + 1] if offset + n + 1 <= len(pool) else pool[:n + 1]))
    return out


def dtype_variants(a):
    """(tag, array) with the same values in other dtypes (only where representable)"""
    a = np.asarray(a)
    out = []
    if a.size and np.all(a == np.round(a)):
        out += [("int64", a.astype(np.int64)), ("int32", a.astype(np.int32))]
        if np.all(a >= 0) and np.all(a < 200):
            out.append(("uint8", a.astype(np.uint8)))
        if np.all((a == 0) | (a == 1)):
            out.append(("bool", a.astype(bool)))
    return out


def layout_variants(a):
    a = np.asarray(a, dtype=float)
    out = []
    if a.ndim >= 2:
        out.append(("fortran", np.asfortranarray(a)))
        out.append(("transposed-view", np.ascontiguousarray(a.T).T))
    if a.ndim >= 1 and a.size:
        big = np.repeat(a, 2, axis=-1)
        out.append(("strided-view", big[..., ::2]))
    return out


def mesh_arrays(mesh):
    out = []
    for nm in ("cellsize", "cellcenters", "facecenters"):
        p = getattr(mesh, nm)
        out += [(f"{nm}._x", p._x), (f"{nm}._y", p._y), (f"{nm}._z", p._z)]
    out.append(("cellvolume", np.asarray(mesh.cellvolume)))
    return out


def ival(rng, shape, lo=0, hi=3):
    return np.array([rng.randint(lo, hi) for _ in range(int(np.prod(shape)))], dtype=float).reshape(shape)


def face_shapes(mesh):
    dims = [int(n) for n in mesh.dims]
    d = len(dims)
    if d == 1: return [(dims[0] + 1,)]
    if d == 2: return [(dims[0] + 1, dims[1]), (dims[0], dims[1] + 1)]
    return [(dims[0] + 1, dims[1], dims[2]), (dims[0], dims[1] + 1, dims[2]), (dims[0], dims[1], dims[2] + 1)]


def mkface(pf, mesh, arrs):
    arrs = list(arrs) + [np.array([])] * (3 - len(arrs))
    return pf.FaceVariable(mesh, *arrs)


def mat(M):
    return M.toarray() if hasattr(M, "toarray") else np.asarray(M)


# ------------------------------------------------------------------ C10 / C17: integer-valued grids
def extra_c10(ctx, pf):
    n = 0
    for cname in gen.CLASSES:
        for off in (0, 1):
            fs = int_faces(cname, offset=off)
            L = {"cls": cname, "faces": [f.tolist() for f in fs]}
            try:
                ref = getattr(pf, cname)(*[f.astype(float) for f in fs])
                for tag, cast in (("int64", np.int64), ("int32", np.int32)):
                    m2 = getattr(pf, cname)(*[f.astype(cast) for f in fs])
                    n += 1
                    bad = [k for (k, a), (_, b) in zip(mesh_arrays(ref), mesh_arrays(m2)) if relsc(a, b) > 1e-14]
                    if bad:
                        ctx.violation(f"c10:{cname}:int-faces", f"{cname}: a grid built from {tag} face positions differs from the grid built from the same positions as floats: {bad[:4]}",
                                      dict(L, dtype=tag, differing=bad))
                        break
            except Exception as ex:
                ctx.violation(f"c10:{cname}:int-faces-raise", f"{cname}: integer face positions raised {type(ex).__name__}: {ex}", L)
        # (N, L) form with integer lengths
        d = gen.DIM[cname]
        Ns = [3, 2, 2][:d]; Ls = [2, 1, 3][:d]
        try:
            a = getattr(pf, cname)(*Ns, *[float(x) for x in Ls]); b = getattr(pf, cname)(*Ns, *Ls)
            n += 1
            bad = [k for (k, x), (_, y) in zip(mesh_arrays(a), mesh_arrays(b)) if relsc(x, y) > 1e-14]
            if bad:
                ctx.violation(f"c10:{cname}:int-lengths", f"{cname}: the (N, L) form with integer lengths differs from float lengths: {bad[:4]}", {"cls": cname, "N": Ns, "L": Ls})
        except Exception as ex:
            ctx.violation(f"c10:{cname}:int-lengths-raise", f"{cname}: (N, L) with integer L raised {type(ex).__name__}: {ex}", {"cls": cname, "N": Ns, "L": Ls})
    return n


def builders_on(pf, mesh, D, u, phi):
    """name -> dense result of every flux-form builder on this mesh / these fields"""
    FL = pf.fluxLimiter("Koren")
    out = {"diffusionTerm": mat(pf.diffusionTerm(D)), "convectionTerm": mat(pf.convectionTerm(u)),
           "convectionUpwindTerm": mat(pf.convectionUpwindTerm(u)), "divergenceTerm": np.asarray(pf.divergenceTerm(u)),
           "convectionTVDupwindRHSTerm": np.asarray(pf.convectionTVDupwindRHSTerm(u, phi, FL))}
    g = pf.gradientTerm(phi)
    out["gradientTerm"] = np.hstack([np.ravel(g._xvalue), np.ravel(g._yvalue), np.ravel(g._zvalue)])
    return out


def extra_c17(ctx, pf):
    """the same problem posed on an integer-valued grid (lengths in whole units) and on the float grid"""
    n = 0
    rng = random.Random(f"c17int-{ctx.seed}")
    for cname in gen.CLASSES:
        fs = int_faces(cname)
        L = {"cls": cname, "faces": [f.tolist() for f in fs]}
        try:
            with np.errstate(all="ignore"):
                mf = getattr(pf, cname)(*[f.astype(float) for f in fs]); mi = getattr(pf, cname)(*[f.astype(np.int64) for f in fs])
                Dv = [ival(rng, s, 1, 4) + 0.5 for s in face_shapes(mf)]; uv = [ival(rng, s, -2, 2) + 0.25 for s in face_shapes(mf)]
                pv = ival(rng, full_shape(mf), 0, 5) + 0.125
                a = builders_on(pf, mf, mkface(pf, mf, Dv), mkface(pf, mf, uv), pf.CellVariable(mf, pv))
                b = builders_on(pf, mi, mkface(pf, mi, Dv), mkface(pf, mi, uv), pf.CellVariable(mi, pv))
            for k in a:
                n += 1
                if relsc(a[k], b[k]) > 1e-13:
                    ctx.violation(f"c17:{cname}:int-grid:{k}", f"{cname}: {k} on a grid given in whole length units (integer face positions) differs from the same grid in floats (rel {relsc(a[k], b[k]):.3g})", dict(L, builder=k))
        except Exception as ex:
            ctx.violation(f"c17:{cname}:int-grid-raise", f"{cname}: builders on an integer-valued grid raised {type(ex).__name__}: {ex}", L)
    return n


# ------------------------------------------------------------------ C03 / C04 / C11: integer-valued cell data
def extra_c03(ctx, pf):
    from suites.bcsuite import set_random_bcs
    n = 0
    rng = random.Random(f"c03int-{ctx.seed}")
    for cname in gen.CLASSES:
        for rep in range(2):
            fs = gen.mesh_case(rng, cname, nmax=3, nmin=2)
            mesh = gen.build_mesh(pf, cname, fs)
            d = gen.DIM[cname]
            BC, desc, per = set_random_bcs(rng, mesh, cname, allow_periodic=False, kinds=["dirichlet", "robin"])
            inner = ival(rng, tuple(int(k) for k in mesh.dims), 0, 1 if rep else 4)
            padded = np.zeros(full_shape(mesh)); padded[interior_slices(d)] = inner
            L = {"cls": cname, "faces": [list(map(float, f)) for f in fs], "kinds": desc, "phi_interior": inner.tolist()}
            try:
                with np.errstate(all="ignore"):
                    ref_i = pf.CellVariable(mesh, inner, _copy.deepcopy(BC))
                    for form, base in (("interior", inner), ("with ghost cells", padded)):
                        for tag, arr in dtype_variants(base):
                            v = pf.CellVariable(mesh, arr, _copy.deepcopy(BC))
                            # the form that includes the ghost cells stores them as given (documented): its reference is the same form in floats
                            ref0 = ref_i if form == "interior" else pf.CellVariable(mesh, base.astype(float), _copy.deepcopy(BC))
                            ref = ref_i
                            n += 1
                            if relsc(v._value, ref0._value) > 1e-13:
                                ctx.violation(f"c03:{cname}:int-values", f"{cname}: boundary values of a variable built from a {tag} array ({form}) violate the configured conditions (differ from the float construction, rel {relsc(v._value, ref._value):.3g})",
                                              dict(L, dtype=tag, form=form)); raise StopIteration
                            v.apply_BCs(); n += 1
                            if relsc(v._value, ref._value) > 1e-13:
                                ctx.violation(f"c03:{cname}:int-values-apply", f"{cname}: after apply_BCs a variable built from a {tag} array ({form}) has wrong boundary values", dict(L, dtype=tag, form=form)); raise StopIteration
                            v.value = np.asarray(ref_i.value) * 0.5 + 0.25       # non-integer values into the same object
                            v.apply_BCs(); n += 1
                            ref = pf.CellVariable(mesh, np.asarray(ref_i.value) * 0.5 + 0.25, _copy.deepcopy(BC))
                            if relsc(v._value, ref._value) > 1e-13:
                                ctx.violation(f"c03:{cname}:int-assign", f"{cname}: a variable built from a {tag} array ({form}): after assigning non-integer values to .value and apply_BCs the stored values are not those values with their boundary values", dict(L, dtype=tag, form=form)); raise StopIteration
                    # integer boundary coefficients
                    B2 = _copy.deepcopy(BC)
                    B3 = _copy.deepcopy(BC)
                    for ax in range(d):
                        for s in SIDES[ax]:
                            f3 = getattr(B3, s)
                            f3.a = np.round(np.asarray(f3.a)).astype(np.int64); f3.b = (np.round(np.asarray(f3.b)) + 1).astype(np.int64); f3.c = np.round(np.asarray(f3.c)).astype(np.int64)
                            f2 = getattr(B2, s)
                            f2.a = np.round(np.asarray(f2.a)); f2.b = np.round(np.asarray(f2.b)) + 1.0; f2.c = np.round(np.asarray(f2.c))
                    va = pf.CellVariable(mesh, inner + 0.5, B2); vb = pf.CellVariable(mesh, inner + 0.5, B3)
                    n += 1
                    if relsc(va._value, vb._value) > 1e-13:
                        ctx.violation(f"c03:{cname}:int-coefficients", f"{cname}: integer-dtype boundary coefficients give other boundary values than the same coefficients as floats", L)
            except StopIteration:
                pass
            except Exception as ex:
                ctx.violation(f"c03:{cname}:int-raise", f"{cname}: integer-valued cell data raised {type(ex).__name__}: {ex}", L)
    return n


def extra_c04(ctx, pf):
    n = 0
    rng = random.Random(f"c04int-{ctx.seed}")
    for cname in gen.CLASSES:
        fs = gen.mesh_case(rng, cname, nmax=3, nmin=2)
        mesh = gen.build_mesh(pf, cname, fs)
        d = gen.DIM[cname]
        inner = ival(rng, tuple(int(k) for k in mesh.dims), 0, 4)
        padded = np.pad(inner, 1, mode="edge")
        L = {"cls": cname, "faces": [list(map(float, f)) for f in fs], "phi_interior": inner.tolist()}
        try:
            with np.errstate(all="ignore"):
                D = pf.FaceVariable(mesh, 1.0)
                beta = pf.CellVariable(mesh, 1.5); gam = pf.CellVariable(mesh, inner + 0.25)
                def solve(v):
                    r = pf.solvePDE(v, [-pf.diffusionTerm(D), pf.linearSourceTerm(beta), pf.constantSourceTerm(gam)])
                    return r, np.array(v._value)
                _, ref = solve(pf.CellVariable(mesh, inner))
                for form, base in (("interior", inner), ("with ghost cells", padded)):
                    for tag, arr in dtype_variants(base) + layout_variants(base):
                        v = pf.CellVariable(mesh, arr)          # default no-flux conditions: all flags clean
                        r, got = solve(v)
                        n += 1
                        if r is not v or relsc(got, ref) > 1e-12:
                            ctx.violation(f"c04:{cname}:repr", f"{cname}: solvePDE on a variable built from a {tag} array ({form}) does not store the solution of the system (rel {relsc(got, ref):.3g} from the float / C-ordered case)",
                                          dict(L, representation=tag, form=form)); raise StopIteration
                        pf.solvePDE(v, [pf.transientTerm(v, 0.5, 1.0), -pf.diffusionTerm(D)])     # a second solve on the same object
                        w = pf.CellVariable(mesh, ref[interior_slices(d)]); pf.solvePDE(w, [pf.transientTerm(w, 0.5, 1.0), -pf.diffusionTerm(D)])
                        n += 1
                        if relsc(v._value, w._value) > 1e-12:
                            ctx.violation(f"c04:{cname}:repr-second", f"{cname}: second solvePDE on a variable built from a {tag} array ({form}) differs from a fresh variable", dict(L, representation=tag, form=form)); raise StopIteration
        except StopIteration:
            pass
        except Exception as ex:
            ctx.violation(f"c04:{cname}:repr-raise", f"{cname}: solvePDE on integer / re-laid-out data raised {type(ex).__name__}: {ex}", L)
    return n


def extra_c11(ctx, pf):
    n = 0
    rng = random.Random(f"c11int-{ctx.seed}")
    for cname in gen.CLASSES:
        fs = gen.mesh_case(rng, cname, nmax=3, nmin=2)
        mesh = gen.build_mesh(pf, cname, fs)
        base = ival(rng, full_shape(mesh), 1, 6)
        base.flat[rng.randrange(base.size)] = 0
        L = {"cls": cname, "faces": [list(map(float, f)) for f in fs], "phi_with_ghosts": base.tolist()}
        uarr = [ival(rng, s, -1, 1) for s in face_shapes(mesh)]
        try:
            with np.errstate(all="ignore"):
                def means(v):
                    out = {k: getattr(pf, k)(v) for k in ("linearMean", "arithmeticMean", "geometricMean", "harmonicMean")}
                    out["upwindMean"] = pf.upwindMean(v, mkface(pf, mesh, uarr))
                    return {k: np.hstack([np.ravel(f._xvalue), np.ravel(f._yvalue), np.ravel(f._zvalue)]) for k, f in out.items()}
                ref = means(pf.CellVariable(mesh, base))
                for tag, arr in dtype_variants(base) + layout_variants(base):
                    got = means(pf.CellVariable(mesh, arr))
                    for k in ref:
                        n += 1
                        if relsc(got[k], ref[k]) > 1e-13:
                            ctx.violation(f"c11:{cname}:{k}:repr", f"{cname}: {k} of a cell field given as a {tag} array differs from the same values as float64 / C-ordered (rel {relsc(got[k], ref[k]):.3g}): not the mean of the two adjacent cell values",
                                          dict(L, representation=tag, mean=k))
        except Exception as ex:
            ctx.violation(f"c11:{cname}:repr-raise", f"{cname}: means of integer / re-laid-out data raised {type(ex).__name__}: {ex}", L)
    return n


# ------------------------------------------------------------------ C01 / C07: memory layout
def extra_c01(ctx, pf):
    from common import volumes
    n = 0
    rng = random.Random(f"c01lay-{ctx.seed}")
    for cname in gen.CLASSES:
        fs = gen.mesh_case(rng, cname, nmax=3, nmin=2)
        mesh = gen.build_mesh(pf, cname, fs)
        d = gen.DIM[cname]
        base = ival(rng, full_shape(mesh), 0, 6) + 0.5
        L = {"cls": cname, "faces": [list(map(float, f)) for f in fs], "phi_with_ghosts": base.tolist()}
        try:
            with np.errstate(all="ignore"):
                want = float(np.sum(np.asarray(mesh.cellvolume) * base[interior_slices(d)]))
                for tag, arr in [("c-order", base)] + layout_variants(base) + dtype_variants(np.round(base)):
                    ref = want if tag in ("c-order", "fortran", "transposed-view", "strided-view") else float(np.sum(np.asarray(mesh.cellvolume) * np.round(base)[interior_slices(d)]))
                    v = pf.CellVariable(mesh, arr)
                    for how, var in (("after construction", v), ("of a copy()", v.copy())):
                        got = float(var.domainIntegral())
                        n += 1
                        if abs(got - ref) > 1e-12 * (abs(ref) + 1e-300):
                            ctx.violation(f"c01:{cname}:domainIntegral-repr", f"{cname}: domainIntegral() {how} of a variable built from a {tag} array is {got}, the volume-weighted sum of its cell values is {ref}",
                                          dict(L, representation=tag, when=how)); raise StopIteration
                # closed system: the reported amount must not jump across the first step
                D = pf.FaceVariable(mesh, 1.0)
                if cname != "SphericalGrid3D":
                    for tag, arr in layout_variants(base):
                        v = pf.CellVariable(mesh, arr)
                        i0 = float(v.domainIntegral())
                        pf.solvePDE(v, [pf.transientTerm(v, 0.1, 1.0), -pf.diffusionTerm(D)])
                        i1 = float(v.domainIntegral())
                        n += 1
                        if abs(i1 - i0) > 1e-10 * (abs(i0) + 1e-300):
                            ctx.violation(f"c01:{cname}:closed-repr", f"{cname}: closed no-flux diffusion step changes domainIntegral() from {i0} to {i1} for a variable built from a {tag} array", dict(L, representation=tag)); raise StopIteration
                # builders on re-laid-out coefficient fields
                Dv = [ival(rng, s, 1, 4) + 0.5 for s in face_shapes(mesh)]; uv = [ival(rng, s, -2, 2) + 0.25 for s in face_shapes(mesh)]
                phi = pf.CellVariable(mesh, base)
                a = builders_on(pf, mesh, mkface(pf, mesh, Dv), mkface(pf, mesh, uv), phi)
                for vi in range(3):
                    try:
                        Dv2 = [layout_variants(x)[vi][1] for x in Dv]; uv2 = [layout_variants(x)[vi][1] for x in uv]
                    except IndexError:
                        continue
                    tag = layout_variants(Dv[0])[vi][0]
                    b = builders_on(pf, mesh, mkface(pf, mesh, Dv2), mkface(pf, mesh, uv2), phi)
                    for k in a:
                        n += 1
                        if relsc(a[k], b[k]) > 1e-13:
                            ctx.violation(f"c01:{cname}:{k}:layout", f"{cname}: {k} of {tag} coefficient arrays differs from the C-ordered arrays with the same values (rel {relsc(a[k], b[k]):.3g}): face fluxes are paired with the wrong cells",
                                          dict(L, representation=tag, builder=k))
        except StopIteration:
            pass
        except Exception as ex:
            ctx.violation(f"c01:{cname}:repr-raise", f"{cname}: re-laid-out inputs raised {type(ex).__name__}: {ex}", L)
    return n


def extra_c07(ctx, pf):
    """a uniform field in a divergence-free flow with matching Dirichlet data must stay uniform -- also when the velocity and
    diffusivity arrays are Fortran-ordered / transposed / strided views"""
    from probes import divfree_velocity
    n = 0
    rng = random.Random(f"c07lay-{ctx.seed}")
    for cname in gen.CLASSES:
        d = gen.DIM[cname]
        if d == 1:
            continue
        for rep in range(2 * d):
            fs = gen.mesh_case(rng, cname, nmax=3, nmin=2)
            mesh = gen.build_mesh(pf, cname, fs)
            L = {"cls": cname, "faces": [list(map(float, f)) for f in fs]}
            try:
                with np.errstate(all="ignore"):
                    # the upwind matrix of an arbitrary velocity field must not depend on the memory layout of its arrays
                    rv = [ival(rng, s_, -3, 3) + 0.5 for s_ in face_shapes(mesh)]
                    Mc = mat(pf.convectionUpwindTerm(mkface(pf, mesh, rv)))
                    for vi in range(3):
                        try:
                            r2 = [layout_variants(x)[vi][1] for x in rv]
                        except IndexError:
                            continue
                        n += 1
                        M2 = mat(pf.convectionUpwindTerm(mkface(pf, mesh, r2)))
                        if relsc(M2, Mc) > 1e-13:
                            ctx.violation(f"c07:{cname}:layout-matrix", f"{cname}: the upwind advection matrix of {layout_variants(rv[0])[vi][0]} velocity arrays differs from that of C-ordered arrays with the same values (rel {relsc(M2, Mc):.3g}): its rows no longer have the sign structure / row sums the bounds rest on",
                                          dict(L, representation=layout_variants(rv[0])[vi][0], u=[a.tolist() for a in rv]))
                            break
                    ua, _flow = divfree_velocity(rng, pf, mesh, cname, fs, rep % d, 1.0 if rep < d else -1.0)
                    uarrs = [np.asarray(x, dtype=float) for x in (ua._xvalue, ua._yvalue, ua._zvalue)[:d]]
                    Dv = [ival(rng, s, 0, 3) for s in face_shapes(mesh)]
                    init = ival(rng, tuple(int(k) for k in mesh.dims), 0, 4) / 4.0          # values in [0, 1]
                    def run(ua_, Da_):
                        BC = pf.BoundaryConditions(mesh)
                        for ax in range(d):
                            for s_ in SIDES[ax]:
                                f = getattr(BC, s_); f.a[:] = 0.0; f.b[:] = 1.0; f.c[:] = 0.5
                        x = pf.CellVariable(mesh, init, BC)
                        for step in range(2):
                            pf.solvePDE(x, [pf.transientTerm(x, 0.5, 1.0), -pf.diffusionTerm(mkface(pf, mesh, Da_)), pf.convectionUpwindTerm(mkface(pf, mesh, ua_))])
                        return np.array(x.value)
                    ref = run(uarrs, Dv)
                    for vi in range(3):
                        try:
                            u2 = [layout_variants(x)[vi][1] for x in uarrs]; D2 = [layout_variants(x)[vi][1] for x in Dv]
                        except IndexError:
                            continue
                        tag = layout_variants(uarrs[0])[vi][0]
                        got = run(u2, D2)
                        n += 1
                        if not np.all(np.isfinite(got)):
                            continue
                        over = max(float(np.max(got)) - 1.0, 0.0 - float(np.min(got)))
                        LL = dict(L, representation=tag, u=[a.tolist() for a in uarrs], D=[a.tolist() for a in Dv], phi0=init.tolist())
                        if over > 1e-9:
                            ctx.violation(f"c07:{cname}:layout", f"{cname}: two implicit steps leave the range [0, 1] of the initial and Dirichlet data by {over:.3g} in a divergence-free flow when the velocity arrays are {tag}", LL)
                        elif relsc(got, ref) > 1e-10:
                            ctx.violation(f"c07:{cname}:layout", f"{cname}: with {tag} velocity / diffusivity arrays the implicit steps solve a different system than with C-ordered arrays of the same values (rel {relsc(got, ref):.3g}): the bounds proved for the stated problem do not apply", LL)
            except Exception as ex:
                ctx.violation(f"c07:{cname}:layout-raise", f"{cname}: re-laid-out velocity arrays raised {type(ex).__name__}: {ex}", L)
    return n


# ------------------------------------------------------------------ C05: magnitudes
def extra_c05(ctx, pf):
    """the identities matrix = divergence of the explicit flux on grids of SI-scale size (nanometres ... kilometres)"""
    from probes import fmul
    n = 0
    rng = random.Random(f"c05sc-{ctx.seed}")
    for cname in gen.CLASSES:
        for scale in (1e-9, 1e-6, 1e4):
            fs0 = gen.mesh_case(rng, cname, nmax=3, nmin=2)
            fs = []
            for a, f in enumerate(fs0):
                f = np.asarray(f, dtype=float)
                fs.append(f * scale if gen.AXKIND[cname][a] in ("len", "rad") else f)
            L = {"cls": cname, "faces": [list(map(float, f)) for f in fs], "length_scale": scale}
            try:
                with np.errstate(all="ignore"):
                    mesh = gen.build_mesh(pf, cname, fs)
                    d = gen.DIM[cname]
                    Dv = [(ival(rng, s, 1, 4) + 0.5) * scale ** 2 for s in face_shapes(mesh)]
                    uv = [(ival(rng, s, -2, 2) + 0.25) * scale for s in face_shapes(mesh)]
                    D = mkface(pf, mesh, Dv); u = mkface(pf, mesh, uv)
                    phi = pf.CellVariable(mesh, ival(rng, full_shape(mesh), 0, 5) + 0.125)
                    x = phi._value.ravel()
                    pairs = [("diffusionTerm vs divergenceTerm(D*gradientTerm)", pf.diffusionTerm(D) @ x, pf.divergenceTerm(fmul(pf, mesh, D, pf.gradientTerm(phi)))),
                             ("convectionTerm vs divergenceTerm(u*linearMean)", pf.convectionTerm(u) @ x, pf.divergenceTerm(fmul(pf, mesh, u, pf.linearMean(phi)))),
                             ("convectionUpwindTerm vs divergenceTerm(u*upwindMean)", pf.convectionUpwindTerm(u) @ x, pf.divergenceTerm(fmul(pf, mesh, u, pf.upwindMean(phi, u))))]
                for nm, a, b in pairs:
                    ai = np.asarray(a).reshape(full_shape(mesh))[interior_slices(d)]; bi = np.asarray(b).reshape(full_shape(mesh))[interior_slices(d)]
                    n += 1
                    if relsc(ai, bi) > 1e-9:
                        ctx.violation(f"c05:{cname}:scale:{nm.split()[0]}", f"{cname}: {nm}: max relative deviation {relsc(ai, bi):.3g} on a grid of length scale {scale:g}", dict(L, identity=nm))
            except Exception as ex:
                ctx.violation(f"c05:{cname}:scale-raise", f"{cname}: grid of length scale {scale:g} raised {type(ex).__name__}: {ex}", L)
    return n


# ------------------------------------------------------------------ C06 / C08: the optional u_upwind argument
def extra_c06(ctx, pf):
    n = 0
    rng = random.Random(f"c06uup-{ctx.seed}")
    for cname in gen.CLASSES:
        for rep in range(3):
            fs = gen.mesh_case(rng, cname, nmax=3, nmin=2)
            mesh = gen.build_mesh(pf, cname, fs)
            d = gen.DIM[cname]
            uv = [ival(rng, s, -2, 2) + 0.25 for s in face_shapes(mesh)]
            # direction field of the opposite / of random sign, never zero
            wv = [(-x if rep == 0 else np.where(ival(rng, x.shape, 0, 1) > 0, 1.0, -1.0) * np.abs(x)) for x in uv]
            L = {"cls": cname, "faces": [list(map(float, f)) for f in fs], "u": [a.tolist() for a in uv], "u_upwind": [a.tolist() for a in wv]}
            try:
                with np.errstate(all="ignore"):
                    u = mkface(pf, mesh, uv); w = mkface(pf, mesh, wv)
                    c = 2.5
                    full = np.full(full_shape(mesh), c)
                    div = np.asarray(pf.divergenceTerm(u)).reshape(full_shape(mesh))[interior_slices(d)]
                    got = np.asarray(pf.convectionUpwindTerm(u, w) @ full.ravel()).reshape(full_shape(mesh))[interior_slices(d)]
                    n += 1
                    if relsc(got, c * div) > 1e-10 and float(np.max(np.abs(got - c * div))) > 1e-10:
                        ctx.violation(f"c06:{cname}:u_upwind", f"{cname}: convectionUpwindTerm(u, u_upwind) of a constant is not c*div(u) when the direction field differs in sign from u (deviation {float(np.max(np.abs(got - c * div))):.3g})", L)
                    FL = pf.fluxLimiter("SUPERBEE")
                    r = np.asarray(pf.convectionTVDupwindRHSTerm(u, pf.CellVariable(mesh, full), FL, w)).reshape(full_shape(mesh))[interior_slices(d)]
                    n += 1
                    if float(np.max(np.abs(r))) > 1e-10:
                        ctx.violation(f"c06:{cname}:tvd-u_upwind", f"{cname}: the TVD correction of a constant field with a u_upwind argument is not zero ({float(np.max(np.abs(r))):.3g})", L)
            except Exception as ex:
                ctx.violation(f"c06:{cname}:u_upwind-raise", f"{cname}: u_upwind argument raised {type(ex).__name__}: {ex}", L)
    return n


def extra_c08(ctx, pf):
    """embedding pairs with the optional direction field: upwind and TVD advection with u_upwind of the opposite sign on the kept axes"""
    n = 0
    rng = random.Random(f"c08uup-{ctx.seed}")
    PAIRS = [("Grid2D", "Grid1D", [0]), ("Grid3D", "Grid2D", [0, 1]), ("CylindricalGrid2D", "CylindricalGrid1D", [0]),
             ("PolarGrid2D", "CylindricalGrid1D", [0]), ("CylindricalGrid3D", "CylindricalGrid2D", [0, 2]), ("SphericalGrid3D", "SphericalGrid1D", [0])]
    for big, small, keep in PAIRS:
        db, ds = gen.DIM[big], gen.DIM[small]
        fsb = gen.mesh_case(rng, big, nmax=3, nmin=2)
        if big == "SphericalGrid3D":
            continue          # sin(theta) weights differ between the 1D shell and the 3D sector: covered by the main probe with its own normalisation
        fss = [fsb[a] for a in keep]
        mb = gen.build_mesh(pf, big, fsb); ms = gen.build_mesh(pf, small, fss)
        L = {"big": big, "small": small, "faces": [list(map(float, f)) for f in fsb]}
        try:
            with np.errstate(all="ignore"):
                shp_s = face_shapes(ms)
                us = [ival(rng, s, 1, 3) + 0.25 for s in shp_s]
                ws = [-x for x in us]
                ps = ival(rng, tuple(int(k) for k in ms.dims), 0, 5) + 0.5
                # lift to the big grid: invariant along the dropped axes, zero velocity along them
                def lift_face(arrs):
                    out = []
                    for a in range(db):
                        shape = face_shapes(mb)[a]
                        if a in keep:
                            src = arrs[keep.index(a)]
                            idx = [slice(None) if b in keep else None for b in range(db)]
                            out.append(np.broadcast_to(src[tuple(idx)] if src.ndim == len(keep) else src.reshape([shape[b] if b in keep else 1 for b in range(db)]), shape).copy())
                        else:
                            out.append(np.zeros(shape))
                    return out
                def lift_cell(a):
                    idx = [slice(None) if b in keep else None for b in range(db)]
                    return np.broadcast_to(a[tuple(idx)], tuple(int(k) for k in mb.dims)).copy()
                ub = lift_face(us); wb = lift_face(ws); pb = lift_cell(ps)
                FL = pf.fluxLimiter("SUPERBEE")
                def run(mesh, ua, wa, p0):
                    BC = pf.BoundaryConditions(mesh)
                    x = pf.CellVariable(mesh, p0, BC)
                    u = mkface(pf, mesh, ua); w = mkface(pf, mesh, wa)
                    for step in range(2):
                        rhs = pf.convectionTVDupwindRHSTerm(u, x, FL, w)
                        pf.solvePDE(x, [pf.transientTerm(x, 0.05, 1.0), pf.convectionUpwindTerm(u, w), rhs])
                    return np.array(x.value)
                xs = run(ms, us, ws, ps); xb = run(mb, ub, wb, pb)
            n += 1
            want = lift_cell(xs)
            if np.all(np.isfinite(xb)) and relsc(xb, want) > 1e-9:
                ctx.violation(f"c08:{big}:u_upwind-embedding", f"{big} with data invariant along the dropped axes differs from {small} for upwind + TVD advection with a u_upwind argument (rel {relsc(xb, want):.3g})", L)
        except Exception as ex:
            ctx.violation(f"c08:{big}:u_upwind-raise", f"{big}/{small}: advection with u_upwind raised {type(ex).__name__}: {ex}", L)
    return n


# ------------------------------------------------------------------ C09: celleval / funceval results are independent variables
def extra_c09(ctx, pf):
    n = 0
    rng = random.Random(f"c09fe-{ctx.seed}")
    for cname in ("Grid1D", "CylindricalGrid2D", "Grid3D"):
        fs = gen.mesh_case(rng, cname, nmax=3, nmin=2)
        mesh = gen.build_mesh(pf, cname, fs)
        d = gen.DIM[cname]
        D = pf.FaceVariable(mesh, 1.0)
        for fname in ("funceval", "celleval"):
            if not hasattr(pf, fname):
                continue
            for k in range(1, 9):
                L = {"cls": cname, "call": f"{fname}(f, {k} variables)"}
                try:
                    with np.errstate(all="ignore"):
                        vs = [pf.CellVariable(mesh, ival(rng, tuple(int(q) for q in mesh.dims), 0, 4) + 0.5) for _ in range(k)]
                        try:
                            r = getattr(pf, fname)(lambda *a: sum(a), *vs)
                        except Exception:
                            continue      # arity not supported: nothing to check
                        fresh = pf.CellVariable(mesh, np.array(vs[0].value), _copy.deepcopy(vs[0].BCs))
                        f = r.BCs.left; f.a[:] = 0.0; f.b[:] = 1.0; f.c[:] = 7.0
                        r.value = np.asarray(r.value) + 1.0
                        pf.solvePDE(vs[0], [pf.transientTerm(vs[0], 0.1, 1.0), -pf.diffusionTerm(D)])
                        pf.solvePDE(fresh, [pf.transientTerm(fresh, 0.1, 1.0), -pf.diffusionTerm(D)])
                    n += 1
                    if relsc(vs[0]._value, fresh._value) > 1e-12:
                        ctx.violation(f"c09:{cname}:{fname}:independent", f"{cname}: editing the boundary conditions of the result of {fname} with {k} variable(s) changes what its first argument solves to (shared BoundaryConditions object)", L)
                        break
                except Exception as ex:
                    ctx.violation(f"c09:{cname}:{fname}:raise", f"{cname}: {fname} with {k} variables: {type(ex).__name__}: {ex}", L)
    return n


# ------------------------------------------------------------------ C12: a second call after an in-place edit (caches)
def extra_c12(ctx, pf):
    n = 0
    rng = random.Random(f"c12cache-{ctx.seed}")
    for cname in gen.CLASSES:
        fs = gen.mesh_case(rng, cname, nmax=3, nmin=2)
        mesh = gen.build_mesh(pf, cname, fs)
        d = gen.DIM[cname]
        L = {"cls": cname, "faces": [list(map(float, f)) for f in fs]}
        try:
            with np.errstate(all="ignore"):
                dims = tuple(int(k) for k in mesh.dims)
                phi = pf.CellVariable(mesh, ival(rng, dims, 0, 4) + 0.5)
                alpha = pf.CellVariable(mesh, ival(rng, dims, 1, 3) + 0.5)
                D = pf.FaceVariable(mesh, 1.0)
                edits = [("alpha.value = new; alpha.apply_BCs()", lambda a, new: (setattr(a, "value", new), a.apply_BCs())),
                         ("alpha.value[...] = new", lambda a, new: a.value.__setitem__(Ellipsis, new)),
                         ("alpha.update_value(other); alpha.apply_BCs()", lambda a, new: (a.update_value(pf.CellVariable(mesh, new)), a.apply_BCs()))]
                for desc, edit in edits:
                    for dt in (0.5, 0.5, 0.25):
                        M1, r1 = pf.transientTerm(phi, dt, alpha)
                        new = ival(rng, dims, 1, 3) + 0.25
                        edit(alpha, new)
                        M2, r2 = pf.transientTerm(phi, dt, alpha)
                        Mf, rf = pf.transientTerm(phi, dt, pf.CellVariable(mesh, new))
                        n += 1
                        if relsc(mat(M2), mat(Mf)) > 1e-13 or relsc(r2, rf) > 1e-13:
                            ctx.violation(f"c12:{cname}:transient-reuse", f"{cname}: transientTerm called again with the same alpha variable after `{desc}` does not use its current values (matrix rel {relsc(mat(M2), mat(Mf)):.3g}, vector rel {relsc(r2, rf):.3g})",
                                          dict(L, edit=desc, dt=dt)); raise StopIteration
                        # and the same for the field itself and the source builders
                        phi.value = np.asarray(phi.value) * 0.5 + 1.0
                        M3, r3 = pf.transientTerm(phi, dt, alpha)
                        Mg, rg = pf.transientTerm(pf.CellVariable(mesh, np.array(phi.value)), dt, pf.CellVariable(mesh, new))
                        n += 1
                        if relsc(mat(M3), mat(Mg)) > 1e-13 or relsc(r3, rg) > 1e-13:
                            ctx.violation(f"c12:{cname}:transient-reuse-phi", f"{cname}: transientTerm called again after editing the old field in place does not use its current values", dict(L, dt=dt)); raise StopIteration
                    b1 = pf.linearSourceTerm(alpha); edit(alpha, ival(rng, dims, 1, 3) + 0.75); b2 = pf.linearSourceTerm(alpha)
                    bf = pf.linearSourceTerm(pf.CellVariable(mesh, np.array(alpha.value)))
                    n += 1
                    if relsc(mat(b2), mat(bf)) > 1e-13:
                        ctx.violation(f"c12:{cname}:source-reuse", f"{cname}: linearSourceTerm called again after `{desc}` does not use the current values", dict(L, edit=desc)); raise StopIteration
        except StopIteration:
            pass
        except Exception as ex:
            ctx.violation(f"c12:{cname}:reuse-raise", f"{cname}: repeated term construction raised {type(ex).__name__}: {ex}", L)
    return n


# ------------------------------------------------------------------ C13: the zero guard at its exact thresholds
def extra_c13(ctx, pf):
    n = 0
    adv = pf.advection
    import inspect
    eps1 = inspect.signature(adv._fsign).parameters["eps1"].default
    pts = [0.0, -0.0]
    for s in (1.0, -1.0):
        for k in (eps1, np.nextafter(eps1, 0), np.nextafter(eps1, 1), eps1 / 2, 2 * eps1, 5e-324, 1e-300, 1.0, 1e300):
            pts.append(s * k)
    with np.errstate(all="ignore"):
        out = adv._fsign(np.array(pts))
    for x, y in zip(pts, out):
        n += 1
        if not np.isfinite(y) or y == 0.0:
            ctx.violation("c13:fsign-zero", f"_fsign({x!r}) = {y!r}: the guard against zero denominators returns zero / non-finite", {"x": x, "eps1": eps1}); break
        if abs(x) >= eps1 and y != x:
            ctx.violation("c13:fsign-identity", f"_fsign({x!r}) = {y!r}: values at or above the threshold must pass unchanged", {"x": x, "eps1": eps1}); break
    # TVD correction on fields whose successive differences are exactly +-eps1 * dx next to flat stretches
    rng = random.Random(f"c13thr-{ctx.seed}")
    names = ["CHARM", "HCUS", "HQUICK", "ospre", "VanLeer", "VanAlbada1", "VanAlbada2", "MinMod", "SUPERBEE", "Osher", "Sweby", "smart", "Koren", "MUSCL", "QUICK", "UMIST"]
    for cname in gen.CLASSES:
        d = gen.DIM[cname]
        Ns = [6, 3, 3][:d]
        mesh = getattr(pf, cname)(*Ns, *([float(k) for k in Ns]))       # unit cells along the first axis
        shape = full_shape(mesh)
        for sgn in (1.0, -1.0):
            prof = np.array([0.0, 0.0, eps1, eps1, 2 * eps1, 2 * eps1, 2 * eps1, 3 * eps1][:shape[0]]) * sgn
            arr = np.broadcast_to(prof.reshape([-1] + [1] * (d - 1)), shape).copy()
            phi = pf.CellVariable(mesh, arr)
            for usign in (1.0, -1.0):
                u = pf.FaceVariable(mesh, usign)
                for nm in names:
                    with np.errstate(all="ignore"):
                        r = pf.convectionTVDupwindRHSTerm(u, phi, pf.fluxLimiter(nm))
                    n += 1
                    if not np.all(np.isfinite(r)):
                        ctx.violation(f"c13:tvd-threshold:{nm}", f"TVD correction with '{nm}' on {cname} is not finite for a field whose successive differences are exactly +-{eps1:g} next to flat stretches",
                                      {"cls": cname, "limiter": nm, "profile": prof.tolist(), "u": usign}); break
    return n


# ------------------------------------------------------------------ C14: operand dtypes
def extra_c14(ctx, pf):
    import operator as op
    OPS = [("add", op.add, np.add), ("sub", op.sub, np.subtract), ("mul", op.mul, np.multiply), ("truediv", op.truediv, np.divide),
           ("gt", op.gt, np.greater), ("ge", op.ge, np.greater_equal), ("lt", op.lt, np.less), ("le", op.le, np.less_equal)]
    n = 0
    rng = random.Random(f"c14dt-{ctx.seed}")
    for cname in ("Grid1D", "PolarGrid2D", "Grid3D"):
        fs = gen.mesh_case(rng, cname, nmax=3, nmin=2)
        mesh = gen.build_mesh(pf, cname, fs)
        dims = tuple(int(k) for k in mesh.dims)
        cv = pf.CellVariable(mesh, ival(rng, dims, 1, 5) + 0.5)
        fa = [ival(rng, s, 1, 5) + 0.5 for s in face_shapes(mesh)]
        fv = mkface(pf, mesh, fa)
        base = ival(rng, dims, 1, 5)
        operands = [(f"ndarray[{t.__name__}]", base.astype(t)) for t in (np.uint8, np.uint16, np.int32, np.int64, np.float32)] + \
                   [(f"np.{t.__name__}(3)", t(3)) for t in (np.uint8, np.uint16, np.int32, np.int64, np.float32, np.float64)] + [("True", True), ("3", 3)]
        for nm, pyop, npop in OPS:
            for oname, o in operands:
                for side in ("var op x", "x op var"):
                    if side == "x op var" and isinstance(o, np.ndarray):
                        continue          # ndarray.__op__ takes over: numpy semantics, not the library's
                    L = {"cls": cname, "op": nm, "operand": oname, "form": side}
                    try:
                        with np.errstate(all="ignore"):
                            want = npop(np.asarray(cv.value, dtype=float), o) if side == "var op x" else npop(o, np.asarray(cv.value, dtype=float))
                            got = pyop(cv, o) if side == "var op x" else pyop(o, cv)
                        n += 1
                        if not hasattr(got, "value") or relsc(np.asarray(got.value, dtype=float), np.asarray(want, dtype=float)) > 1e-13:
                            ctx.violation(f"c14:cell:{nm}:dtype", f"cell: {nm} ({side}) with x = {oname} is not the elementwise numpy result on interior values", L)
                    except Exception as ex:
                        ctx.violation(f"c14:cell:{nm}:dtype-raise", f"cell: {nm} ({side}) with x = {oname} raised {type(ex).__name__}: {ex}", L)
                    if isinstance(o, np.ndarray):
                        continue
                    try:
                        with np.errstate(all="ignore"):
                            got = pyop(fv, o) if side == "var op x" else pyop(o, fv)
                            wants = [npop(a, o) if side == "var op x" else npop(o, a) for a in fa]
                        n += 1
                        gots = [got._xvalue, got._yvalue, got._zvalue][:len(fa)]
                        if any(relsc(np.asarray(g, dtype=float), np.asarray(w, dtype=float)) > 1e-13 for g, w in zip(gots, wants)):
                            ctx.violation(f"c14:face:{nm}:dtype", f"face: {nm} ({side}) with x = {oname} is not the elementwise numpy result", L)
                    except Exception as ex:
                        ctx.violation(f"c14:face:{nm}:dtype-raise", f"face: {nm} ({side}) with x = {oname} raised {type(ex).__name__}: {ex}", L)
    return n


# ------------------------------------------------------------------ C15: builders on variables that are NOT up to date
def extra_c15(ctx, pf):
    n = 0
    rng = random.Random(f"c15dirty-{ctx.seed}")
    for cname in gen.CLASSES:
        fs = gen.mesh_case(rng, cname, nmax=3, nmin=2)
        mesh = gen.build_mesh(pf, cname, fs)
        d = gen.DIM[cname]
        dims = tuple(int(k) for k in mesh.dims)
        L = {"cls": cname, "faces": [list(map(float, f)) for f in fs]}
        u = mkface(pf, mesh, [ival(rng, s, -2, 2) + 0.25 for s in face_shapes(mesh)])
        FL = pf.fluxLimiter("Koren")
        calls = [("gradientTerm", lambda v: pf.gradientTerm(v)), ("gradientTermFixedBC", lambda v: pf.gradientTermFixedBC(v)),
                 ("linearMean", lambda v: pf.linearMean(v)), ("arithmeticMean", lambda v: pf.arithmeticMean(v)), ("geometricMean", lambda v: pf.geometricMean(v)),
                 ("harmonicMean", lambda v: pf.harmonicMean(v)), ("upwindMean", lambda v: pf.upwindMean(v, u)),
                 ("linearSourceTerm", lambda v: pf.linearSourceTerm(v)), ("constantSourceTerm", lambda v: pf.constantSourceTerm(v)),
                 ("transientTerm(phi=v)", lambda v: pf.transientTerm(v, 0.5, 1.0)), ("transientTerm(alpha=v)", lambda v: pf.transientTerm(pf.CellVariable(mesh, 1.0), 0.5, v)),
                 ("convectionTVDupwindRHSTerm", lambda v: pf.convectionTVDupwindRHSTerm(u, v, FL)), ("domainIntegral", lambda v: v.domainIntegral()),
                 ("copy", lambda v: v.copy()), ("-v", lambda v: -v), ("v*2.0", lambda v: v * 2.0), ("celleval", lambda v: pf.celleval(lambda a: a + 1.0, v))]
        for state in ("values edited", "boundary conditions edited", "both"):
            for nm, call in calls:
                try:
                    with np.errstate(all="ignore"):
                        v = pf.CellVariable(mesh, ival(rng, dims, 1, 5) + 0.5)
                        if state in ("values edited", "both"):
                            v.value = np.asarray(v.value) + 1.0
                        if state in ("boundary conditions edited", "both"):
                            v.BCs.left.a[:] = 0.0; v.BCs.left.b[:] = 1.0; v.BCs.left.c[:] = 5.0
                        before = (np.array(v._value), bool(v.value.modified), bool(v.BCs.modified))
                        try:
                            call(v)
                        except Exception:
                            continue          # a builder that rejects this input does not modify it either (checked below all the same)
                        finally:
                            after = (np.array(v._value), bool(v.value.modified), bool(v.BCs.modified))
                    n += 1
                    if not np.array_equal(before[0], after[0], equal_nan=True) or before[1:] != after[1:]:
                        what = "stored values (ghost cells)" if not np.array_equal(before[0], after[0], equal_nan=True) else "dirty flags"
                        ctx.violation(f"c15:{cname}:{nm}:dirty-input", f"{cname}: {nm} modified the {what} of a variable that was not up to date ({state})", dict(L, call=nm, state=state))
                except Exception as ex:
                    ctx.violation(f"c15:{cname}:{nm}:dirty-raise", f"{cname}: {nm} on a variable with {state}: {type(ex).__name__}: {ex}", dict(L, call=nm))
    return n


# ------------------------------------------------------------------ C16: argument forms of BoundaryFace
def extra_c16(ctx, pf):
    n = 0
    BF = pf.boundary.BoundaryFace
    good = np.array([1.0])
    bads = [1.0, 0, None, [1.0], (1.0,), "zero", np.float64(1.0), np.int64(1)]
    forms = [("no periodic argument", lambda a, b, c: BF(a, b, c)), ("periodic=False (positional)", lambda a, b, c: BF(a, b, c, False)),
             ("periodic=True (positional)", lambda a, b, c: BF(a, b, c, True)), ("periodic=False (keyword)", lambda a, b, c: BF(a, b, c, periodic=False)),
             ("periodic=True (keyword)", lambda a, b, c: BF(a, b, c, periodic=True)), ("periodic=1", lambda a, b, c: BF(a, b, c, 1))]
    for fname, mk in forms:
        try:
            mk(good, good.copy(), good.copy()); n += 1
        except Exception as ex:
            ctx.violation("c16:bcface-valid", f"BoundaryFace with array coefficients and {fname} raised {type(ex).__name__}", {"form": fname})
        for pos in range(3):
            for bad in bads:
                args = [good, good.copy(), good.copy()]; args[pos] = bad
                try:
                    mk(*args); got = "ok"
                except TypeError:
                    got = "TypeError"
                except Exception as ex:
                    got = type(ex).__name__
                n += 1
                if got != "TypeError":
                    ctx.violation("c16:bcface-type-form", f"BoundaryFace with a non-array coefficient ({'abc'[pos]} = {bad!r}) and {fname} gives {got}, documented: TypeError", {"form": fname, "position": "abc"[pos], "value": repr(bad)})
    return n


# ================================================================== round-4 lessons
# (1) code paths that switch on SIZE (a different solver / a cache above some number of cells): one large case per check;
# (2) change detection by tolerance (np.allclose): edits that are tiny in absolute or relative terms;
# (3) dtype variants of EVERY array argument (face fields too, float32 too);  (4) layout variants of every array argument;
# (5) operands built with non-default options (BCsTerm_precalc=False, results of the explicit solver);
# (6) two successive results of one builder must not share storage.
def _chain(*fs):
    def run(ctx, pf):
        return sum(f(ctx, pf) for f in fs)
    return run


def big_c01(ctx, pf):
    """closed no-flux system with more than 100 000 unknowns: the amount must still be conserved to rounding"""
    n = 0
    for cname, Ns in (("CylindricalGrid2D", (340, 320)), ("Grid2D", (330, 335))):
        rng = random.Random(f"c01big-{ctx.seed}")
        fs = [np.cumsum([0.0] + [0.5 + 0.5 * ((7 * i) % 5) / 5.0 for i in range(N)]) / N for N in Ns]
        mesh = gen.build_mesh(pf, cname, fs)
        L = {"cls": cname, "N": list(Ns), "unknowns": int(np.prod([k + 2 for k in Ns]))}
        try:
            with np.errstate(all="ignore"):
                X, Y = np.meshgrid(mesh.cellcenters._x, mesh.cellcenters._y, indexing="ij")
                c = pf.CellVariable(mesh, 1.0 + np.sin(3 * X) * np.cos(2 * Y))
                D = pf.FaceVariable(mesh, 0.01)
                ux = np.zeros((Ns[0] + 1, Ns[1])); ux[1:-1, :] = 0.05
                uy = np.zeros((Ns[0], Ns[1] + 1)); uy[:, 1:-1] = -0.03
                if cname.startswith("Cyl"):
                    ux[1:-1, :] = 0.05 / np.maximum(np.asarray(fs[0])[1:-1, None], 1e-3)
                u = pf.FaceVariable(mesh, ux, uy, np.array([]))
                i0 = float(c.domainIntegral())
                for step in range(2):
                    pf.solvePDE(c, [pf.transientTerm(c, 0.1, 1.0), -pf.diffusionTerm(D), pf.convectionUpwindTerm(u)])
                i1 = float(c.domainIntegral())
            n += 1
            if abs(i1 - i0) > 1e-10 * abs(i0):
                ctx.violation(f"c01:{cname}:large-closed", f"{cname}: closed no-flux system with {L['unknowns']} unknowns: domainIntegral changed from {i0!r} to {i1!r} over two implicit steps (relative {abs(i1 - i0) / abs(i0):.2g})", L)
        except Exception as ex:
            ctx.violation(f"c01:{cname}:large-raise", f"{cname}: large closed system raised {type(ex).__name__}: {ex}", L)
    return n


def big_c04(ctx, pf):
    """solvePDE against solveMatrixPDE-with-explicit-solver and the interior residual on a system with more than 100 000 unknowns"""
    from scipy.sparse.linalg import spsolve
    n = 0
    Ns = (345, 310)
    fs = [np.linspace(0.0, 1.0, N + 1) ** 1.2 for N in Ns]
    mesh = gen.build_mesh(pf, "Grid2D", fs)
    L = {"cls": "Grid2D", "N": list(Ns)}
    try:
        with np.errstate(all="ignore"):
            X, Y = np.meshgrid(mesh.cellcenters._x, mesh.cellcenters._y, indexing="ij")
            BC = pf.BoundaryConditions(mesh); BC.left.a[:] = 0.0; BC.left.b[:] = 1.0; BC.left.c[:] = 1.0
            phi = pf.CellVariable(mesh, 0.0, BC)
            M = -pf.diffusionTerm(pf.FaceVariable(mesh, 1.0)) + pf.linearSourceTerm(pf.CellVariable(mesh, 1.0 + X))
            rhs = pf.constantSourceTerm(pf.CellVariable(mesh, np.cos(Y)))
            pf.solvePDE(phi, [M, rhs])
            Mbc, Rbc = pf.boundaryConditionsTerm(BC)
            ref = spsolve(Mbc + M, Rbc + rhs)
            res = (Mbc + M) @ np.asarray(phi._value).ravel() - (Rbc + rhs)
        n += 1
        d = float(np.max(np.abs(np.asarray(phi._value).ravel() - ref))) / (float(np.max(np.abs(ref))) + 1e-300)
        if d > 1e-10:
            ctx.violation("c04:large-system", f"Grid2D {Ns}: the values solvePDE stores for a system of {ref.size} unknowns differ from the direct solution of the assembled system (rel {d:.2g}, residual {float(np.max(np.abs(res))):.2g})", L)
    except Exception as ex:
        ctx.violation("c04:large-raise", f"large system raised {type(ex).__name__}: {ex}", L)
    return n


def tiny_edits_c09(ctx, pf):
    """an edit of a boundary coefficient by a tiny absolute / relative amount is still an edit: the next solve equals a fresh start"""
    n = 0
    rng = random.Random(f"c09tiny-{ctx.seed}")
    for cname in gen.CLASSES:
        d = gen.DIM[cname]
        fs = gen.mesh_case(rng, cname, nmax=3, nmin=2)
        mesh = gen.build_mesh(pf, cname, fs)
        D = pf.FaceVariable(mesh, 1.0)
        for base, new in ((2e-10, 8e-10), (1000.0, 1000.004), (1.0, 1.0 + 3e-7), (0.0, 5e-9)):
            for consumer in ("implicit", "explicit+implicit"):
                L = {"cls": cname, "faces": [list(map(float, f)) for f in fs], "edit": f"Dirichlet value {base!r} -> {new!r} on every side", "then": consumer}
                try:
                    with np.errstate(all="ignore"):
                        def setbc(B, val):
                            for ax in range(d):
                                for s in SIDES[ax]:
                                    f = getattr(B, s); f.a[:] = 0.0; f.b[:] = 1.0; f.c[:] = val
                        BC = pf.BoundaryConditions(mesh); setbc(BC, base)
                        init = ival(rng, tuple(int(k) for k in mesh.dims), 0, 4) * (abs(new) + abs(base))
                        v = pf.CellVariable(mesh, init, BC)
                        pf.solvePDE(v, [pf.transientTerm(v, 0.5, 1.0), -pf.diffusionTerm(D)])
                        setbc(v.BCs, new)
                        B2 = pf.BoundaryConditions(mesh); setbc(B2, new)
                        fresh = pf.CellVariable(mesh, np.array(v.value), B2)
                        for w_ in (v, fresh):
                            if consumer != "implicit":
                                pf.solveExplicitPDE(w_, 0.0, np.zeros(w_._value.size))
                            pf.solvePDE(w_, [pf.transientTerm(w_, 0.5, 1.0), -pf.diffusionTerm(D)])
                    n += 1
                    if relsc(v._value, fresh._value) > 1e-9:
                        ctx.violation(f"c09:{cname}:tiny-edit", f"{cname}: after changing the Dirichlet value from {base!r} to {new!r} the next solve ({consumer}) differs from a fresh start (rel {relsc(v._value, fresh._value):.3g}): the edit was not noticed", L)
                        break
                except Exception as ex:
                    ctx.violation(f"c09:{cname}:tiny-edit-raise", f"{cname}: tiny boundary edit raised {type(ex).__name__}: {ex}", L)
    return n


def tiny_edits_c03(ctx, pf):
    """after a tiny edit of the boundary data the solved interior and the stored boundary values must still satisfy the NEW condition"""
    n = 0
    rng = random.Random(f"c03tiny-{ctx.seed}")
    for cname in gen.CLASSES:
        d = gen.DIM[cname]
        fs = gen.mesh_case(rng, cname, nmax=3, nmin=2)
        mesh = gen.build_mesh(pf, cname, fs)
        D = pf.FaceVariable(mesh, 1.0)
        for base, new in ((2e-10, 8e-10), (1000.0, 1000.004)):
            L = {"cls": cname, "faces": [list(map(float, f)) for f in fs], "edit": f"Dirichlet value {base!r} -> {new!r}"}
            try:
                with np.errstate(all="ignore"):
                    BC = pf.BoundaryConditions(mesh)
                    for ax in range(d):
                        for s in SIDES[ax]:
                            f = getattr(BC, s); f.a[:] = 0.0; f.b[:] = 1.0; f.c[:] = base
                    v = pf.CellVariable(mesh, base, BC)
                    pf.solvePDE(v, [pf.transientTerm(v, 0.5, 1.0), -pf.diffusionTerm(D)])
                    for ax in range(d):
                        for s in SIDES[ax]:
                            getattr(v.BCs, s).c[:] = new
                    spy = {}
                    from scipy.sparse.linalg import spsolve
                    def solver(M, R):
                        spy["x"] = spsolve(M, R); return spy["x"]
                    pf.solvePDE(v, [pf.transientTerm(v, 0.5, 1.0), -pf.diffusionTerm(D)], externalsolver=solver)
                    raw = np.asarray(spy["x"]).reshape(full_shape(mesh))
                n += 1
                # Dirichlet: face average of the SOLVER's ghost and inner value = new value, on the first axis' lo side
                lo = tuple(0 if i == 0 else slice(1, -1) for i in range(d)); l1 = tuple(1 if i == 0 else slice(1, -1) for i in range(d))
                r_solver = float(np.max(np.abs(0.5 * (raw[lo] + raw[l1]) - new))) / abs(new)
                r_stored = float(np.max(np.abs(0.5 * (np.asarray(v._value)[lo] + np.asarray(v._value)[l1]) - new))) / abs(new)
                if r_solver > 1e-9 or r_stored > 1e-9:
                    ctx.violation(f"c03:{cname}:tiny-edit", f"{cname}: after editing the Dirichlet value from {base!r} to {new!r} the boundary equations the solver used / the stored boundary values do not encode the new value (relative residuals {r_solver:.2g} / {r_stored:.2g})", L)
                    break
            except Exception as ex:
                ctx.violation(f"c03:{cname}:tiny-edit-raise", f"{cname}: tiny boundary edit raised {type(ex).__name__}: {ex}", L)
    return n


def coef_dtype_c05(ctx, pf, prop="c05"):
    """integer-valued face fields given as integer / float32 arrays: every builder gives what it gives for float64 arrays"""
    n = 0
    rng = random.Random(f"{prop}cdt-{ctx.seed}")
    for cname in gen.CLASSES:
        fs = gen.mesh_case(rng, cname, nmax=3, nmin=2)
        mesh = gen.build_mesh(pf, cname, fs)
        L = {"cls": cname, "faces": [list(map(float, f)) for f in fs]}
        Dv = [ival(rng, s, 1, 5) for s in face_shapes(mesh)]
        uv = [2 * ival(rng, s, -2, 2) + 1 for s in face_shapes(mesh)]          # odd integers of both signs
        phi = pf.CellVariable(mesh, ival(rng, full_shape(mesh), 0, 5) + 0.125)
        try:
            with np.errstate(all="ignore"):
                ref = builders_on(pf, mesh, mkface(pf, mesh, Dv), mkface(pf, mesh, uv), phi)
                ref["convectionUpwindTerm+u_upwind"] = mat(pf.convectionUpwindTerm(mkface(pf, mesh, uv), mkface(pf, mesh, [-x for x in uv])))
                for tag, cast in (("int64", np.int64), ("int32", np.int32), ("float32", np.float32)):
                    D2 = mkface(pf, mesh, [x.astype(cast) for x in Dv]); u2 = mkface(pf, mesh, [x.astype(cast) for x in uv])
                    got = builders_on(pf, mesh, D2, u2, phi)
                    got["convectionUpwindTerm+u_upwind"] = mat(pf.convectionUpwindTerm(u2, mkface(pf, mesh, [(-x).astype(cast) for x in uv])))
                    for k in ref:
                        n += 1
                        tol = 1e-13 if tag != "float32" else 1e-6
                        if relsc(got[k], ref[k]) > tol:
                            ctx.violation(f"{prop}:{cname}:{k}:coef-dtype", f"{cname}: {k} of integer-valued coefficient arrays given as {tag} differs from the same values as float64 (rel {relsc(got[k], ref[k]):.3g})",
                                          dict(L, builder=k, dtype=tag, u=[a.tolist() for a in uv], D=[a.tolist() for a in Dv]))
        except Exception as ex:
            ctx.violation(f"{prop}:{cname}:coef-dtype-raise", f"{cname}: integer-dtype coefficient arrays raised {type(ex).__name__}: {ex}", L)
    return n


def scale_c10(ctx, pf):
    """grids of SI size: a graded grid in nanometres has the same relative geometry as the same grid in unit lengths"""
    n = 0
    rng = random.Random(f"c10sc-{ctx.seed}")
    for cname in gen.CLASSES:
        for scale in (1e-9, 1e-7, 1e5):
            fs0 = [np.asarray(f, dtype=float) for f in gen.mesh_case(rng, cname, nmax=4, nmin=3)]
            kinds = gen.AXKIND[cname]
            fs = [f * scale if kinds[a] in ("len", "rad") else f for a, f in enumerate(fs0)]
            L = {"cls": cname, "faces": [list(map(float, f)) for f in fs], "length_scale": scale}
            try:
                m0 = gen.build_mesh(pf, cname, fs0); m1 = gen.build_mesh(pf, cname, fs)
                for a in range(len(fs)):
                    sc = scale if kinds[a] in ("len", "rad") else 1.0
                    for nm in ("cellsize", "cellcenters", "facecenters"):
                        x0 = np.asarray(getattr(getattr(m0, nm), "_" + "xyz"[a])); x1 = np.asarray(getattr(getattr(m1, nm), "_" + "xyz"[a]))
                        n += 1
                        if relsc(x1, x0 * sc) > 1e-12:
                            ctx.violation(f"c10:{cname}:scaled-geometry", f"{cname}: {nm} of axis {a} of a grid of length scale {scale:g} is not the scaled {nm} of the unit-scale grid (rel {relsc(x1, x0 * sc):.3g}): sizes are not the face differences", dict(L, array=nm, axis=a))
                            raise StopIteration
            except StopIteration:
                pass
            except Exception as ex:
                ctx.violation(f"c10:{cname}:scaled-raise", f"{cname}: grid of length scale {scale:g} raised {type(ex).__name__}: {ex}", L)
    return n


def alpha_repr_c12(ctx, pf):
    """transientTerm / linearSourceTerm with per-cell coefficients in other layouts / dtypes"""
    n = 0
    rng = random.Random(f"c12lay-{ctx.seed}")
    for cname in gen.CLASSES:
        if gen.DIM[cname] == 1:
            continue
        fs = gen.mesh_case(rng, cname, nmax=3, nmin=2)
        mesh = gen.build_mesh(pf, cname, fs)
        d = gen.DIM[cname]
        dims = tuple(int(k) for k in mesh.dims)
        L = {"cls": cname, "faces": [list(map(float, f)) for f in fs]}
        a_in = ival(rng, dims, 1, 6)
        a_pad = np.pad(a_in, 1, mode="edge")
        phi = pf.CellVariable(mesh, ival(rng, dims, 0, 4) + 0.5)
        try:
            with np.errstate(all="ignore"):
                Mr, Rr = pf.transientTerm(phi, 0.5, pf.CellVariable(mesh, a_in))
                Lr = pf.linearSourceTerm(pf.CellVariable(mesh, a_in))
                variants = [(f"CellVariable from a {t} array (interior)", pf.CellVariable(mesh, x)) for t, x in layout_variants(a_in) + dtype_variants(a_in)] + \
                           [(f"CellVariable from a {t} array (with ghost cells)", pf.CellVariable(mesh, x)) for t, x in layout_variants(a_pad) + dtype_variants(a_pad)]
                for tag, al in variants:
                    M2, R2 = pf.transientTerm(phi, 0.5, al)
                    L2 = pf.linearSourceTerm(al)
                    n += 1
                    if relsc(mat(M2), mat(Mr)) > 1e-13 or relsc(R2, Rr) > 1e-13 or relsc(mat(L2), mat(Lr)) > 1e-13:
                        ctx.violation(f"c12:{cname}:alpha-repr", f"{cname}: transientTerm / linearSourceTerm with alpha given as {tag} differ from the C-ordered float64 case: alpha*(new-old)/dt is not applied cell by cell", dict(L, alpha=tag))
                        break
                # the old field in other layouts
                for t, x in layout_variants(np.pad(np.asarray(phi.value), 1, mode="edge")):
                    M2, R2 = pf.transientTerm(pf.CellVariable(mesh, x), 0.5, pf.CellVariable(mesh, a_in))
                    Mq, Rq = pf.transientTerm(pf.CellVariable(mesh, np.ascontiguousarray(x)), 0.5, pf.CellVariable(mesh, a_in))
                    n += 1
                    if relsc(R2, Rq) > 1e-13:
                        ctx.violation(f"c12:{cname}:phi-repr", f"{cname}: transientTerm with the old field given as a {t} array differs from the C-ordered case", dict(L, phi=t)); break
        except Exception as ex:
            ctx.violation(f"c12:{cname}:alpha-repr-raise", f"{cname}: per-cell alpha in another layout raised {type(ex).__name__}: {ex}", L)
    return n


def operand_kinds_c14(ctx, pf):
    """funceval / celleval / operators on variables built with BCsTerm_precalc=False and on results of the explicit solver"""
    n = 0
    rng = random.Random(f"c14ok-{ctx.seed}")
    for cname in ("Grid1D", "CylindricalGrid2D"):
        fs = gen.mesh_case(rng, cname, nmax=3, nmin=2)
        mesh = gen.build_mesh(pf, cname, fs)
        dims = tuple(int(k) for k in mesh.dims)
        D = pf.FaceVariable(mesh, 1.0)
        makers = [("CellVariable(..., BCsTerm_precalc=False)", lambda: pf.CellVariable(mesh, ival(rng, dims, 0, 4) + 0.5, BCsTerm_precalc=False)),
                  ("result of solveExplicitPDE", lambda: pf.solveExplicitPDE(pf.CellVariable(mesh, ival(rng, dims, 0, 4) + 0.5), 0.01, np.zeros(int(np.prod(full_shape(mesh)))))),
                  ("copy() of a variable", lambda: pf.CellVariable(mesh, ival(rng, dims, 0, 4) + 0.5).copy())]
        ops = [("celleval(f, v)", lambda v: pf.celleval(lambda a: a + 1.0, v)), ("funceval(f, v, w)", lambda v: pf.funceval(lambda a, b: a + b, v, pf.CellVariable(mesh, 1.0))),
               ("-v", lambda v: -v), ("v + 1.0", lambda v: v + 1.0), ("2.0 * v", lambda v: 2.0 * v), ("v.copy()", lambda v: v.copy())]
        for mname, mk in makers:
            for oname, op in ops:
                L = {"cls": cname, "operand": mname, "operation": oname}
                try:
                    with np.errstate(all="ignore"):
                        v = mk()
                        r = op(v)
                        fresh = pf.CellVariable(mesh, np.array(v.value), _copy.deepcopy(v.BCs))
                        f = r.BCs.left; f.a[:] = 0.0; f.b[:] = 1.0; f.c[:] = 9.0
                        r.value = np.asarray(r.value) + 2.0
                        shared = r.BCs is v.BCs
                        pf.solvePDE(v, [pf.transientTerm(v, 0.1, 1.0), -pf.diffusionTerm(D)])
                        pf.solvePDE(fresh, [pf.transientTerm(fresh, 0.1, 1.0), -pf.diffusionTerm(D)])
                    n += 1
                    if shared or relsc(v._value, fresh._value) > 1e-12:
                        ctx.violation(f"c14:{cname}:operand-kind", f"{cname}: the result of {oname} on a {mname} is not independent of its operand (editing the result's boundary conditions changes the operand)", L)
                except Exception as ex:
                    ctx.violation(f"c14:{cname}:operand-kind-raise", f"{cname}: {oname} on a {mname} raised {type(ex).__name__}: {ex}", L)
    return n


def results_alias_c15(ctx, pf):
    """two successive results of one call do not share storage or objects, also on grids with more than 1000 cells"""
    n = 0
    meshes = [("Grid1D", pf.Grid1D(1200, 3.0)), ("CylindricalGrid2D", pf.CylindricalGrid2D(40, 30, 1.0, 2.0)), ("Grid3D", pf.Grid3D(12, 10, 9, 1.0, 1.0, 1.0)),
              ("Grid2D", pf.Grid2D(3, 2, 1.0, 1.0))]
    for cname, mesh in meshes:
        L = {"cls": cname, "cells": int(np.prod(mesh.dims))}
        phi = pf.CellVariable(mesh, 1.5); u = pf.FaceVariable(mesh, 1.0)
        calls = [("cellLocations", lambda: pf.cellLocations(mesh)), ("faceLocations", lambda: pf.faceLocations(mesh)), ("gradientTerm", lambda: pf.gradientTerm(phi)),
                 ("linearMean", lambda: pf.linearMean(phi)), ("cellvolume", lambda: mesh.cellvolume), ("diffusionTerm", lambda: pf.diffusionTerm(u)),
                 ("boundaryConditionsTerm", lambda: pf.boundaryConditionsTerm(phi.BCs)), ("copy", lambda: phi.copy())]
        def parts(r):
            out = []
            def walk(x):
                if isinstance(x, (tuple, list)):
                    for y in x: walk(y)
                elif hasattr(x, "_value") or hasattr(x, "_xvalue"):
                    out.append(x)
                elif isinstance(x, np.ndarray) or hasattr(x, "tocsr"):
                    out.append(x)
            walk(r); return out
        def arrays(x):
            if hasattr(x, "_xvalue"): return [np.asarray(x._xvalue), np.asarray(x._yvalue), np.asarray(x._zvalue)]
            if hasattr(x, "_value"): return [np.asarray(x._value)]
            if hasattr(x, "tocsr"): return [x.tocsr().data]
            return [np.asarray(x)]
        for nm, call in calls:
            try:
                with np.errstate(all="ignore"):
                    r1 = call(); p1 = parts(r1)
                    snap = [[a.copy() for a in arrays(x)] for x in p1]
                    # modify the first result in place, then call again
                    for x in p1:
                        for a in arrays(x):
                            if a.size and a.flags.writeable:
                                a[...] = a + 1.0
                        if hasattr(x, "BCs"):
                            x.BCs.left.c[:] = 17.0
                    r2 = call(); p2 = parts(r2)
                n += 1
                same_obj = any(a is b for a, b in zip(p1, p2))
                changed = any(relsc(a2, s0) > 1e-13 for x2, s in zip(p2, snap) for a2, s0 in zip(arrays(x2), s))
                bc_leak = any(hasattr(x, "BCs") and np.any(np.asarray(x.BCs.left.c) == 17.0) for x in p2)
                if same_obj or changed or bc_leak:
                    ctx.violation(f"c15:{cname}:{nm}:result-reuse", f"{cname} ({L['cells']} cells): a second call of {nm} returns objects / storage of the first call (an in-place edit of the first result shows in the second)", dict(L, call=nm))
            except Exception as ex:
                ctx.violation(f"c15:{cname}:{nm}:result-reuse-raise", f"{cname}: {nm} twice raised {type(ex).__name__}: {ex}", dict(L, call=nm))
    return n


def extra_c04_more(ctx, pf):
    """periodic boundaries with integer cell data; float32 cell data incl. ghost cells"""
    n = 0
    rng = random.Random(f"c04per-{ctx.seed}")
    for cname in gen.CLASSES:
        d = gen.DIM[cname]
        nonrad = [a for a in range(d) if gen.AXKIND[cname][a] != "rad"]
        fs = gen.mesh_case(rng, cname, nmax=3, nmin=2, uniform=True)
        mesh = gen.build_mesh(pf, cname, fs)
        inner = ival(rng, tuple(int(k) for k in mesh.dims), 0, 4)
        L = {"cls": cname, "faces": [list(map(float, f)) for f in fs], "phi_interior": inner.tolist()}
        try:
            with np.errstate(all="ignore"):
                D = pf.FaceVariable(mesh, 1.0)
                def mkbc():
                    B = pf.BoundaryConditions(mesh)
                    for a in nonrad:
                        getattr(B, SIDES[a][0]).periodic = True
                    return B
                def solve(v):
                    pf.solvePDE(v, [pf.transientTerm(v, 0.5, 1.0), -pf.diffusionTerm(D), pf.linearSourceTerm(pf.CellVariable(mesh, 0.5))])
                    return np.array(v._value, dtype=float)
                ref = solve(pf.CellVariable(mesh, inner, mkbc()))
                for tag, arr in dtype_variants(inner) + [("float32", inner.astype(np.float32))]:
                    got = solve(pf.CellVariable(mesh, arr, mkbc()))
                    n += 1
                    if relsc(got, ref) > (1e-12 if tag != "float32" else 1e-9):
                        ctx.violation(f"c04:{cname}:periodic-dtype", f"{cname}: solvePDE on a periodic variable built from a {tag} array does not store the solution of the system (rel {relsc(got, ref):.3g})", dict(L, dtype=tag)); break
                pad = np.pad(inner + 0.25, 1, mode="edge")
                ref2 = solve(pf.CellVariable(mesh, pad))
                got2 = solve(pf.CellVariable(mesh, pad.astype(np.float32)))
                n += 1
                if relsc(got2, ref2) > 1e-9:
                    ctx.violation(f"c04:{cname}:float32-storage", f"{cname}: solvePDE on a variable built from a float32 array (with ghost cells) stores the solution in single precision (rel {relsc(got2, ref2):.3g})", L)
        except Exception as ex:
            ctx.violation(f"c04:{cname}:periodic-dtype-raise", f"{cname}: periodic integer data raised {type(ex).__name__}: {ex}", L)
    return n



# ================================================================== round-5 lessons
# (1) every container a `for` loop accepts as the list of terms (tuples, iterators, generators are consumed ONCE by the library);
# (2) boundary data given in broadcastable form (a column / a row for data that do not vary along one axis of the face);
# (3) positive data far below machine epsilon (1e-18 .. 1e-120) and far above 1: `abs(v) < eps` is not a zero test;
# (4) the zero guard must clamp tiny NON-ZERO denominators too (differences of 5e-324 next to differences of 1);
# (5) shape / arity checks on grids with more than 100 000 cells per axis (np.allclose on integers has a relative tolerance);
# (6) unit changes on well-resolved smooth profiles (cell-to-cell differences 1e-3 of the amplitude), several hundred cells per axis.
def term_containers(ctx, pf, prop):
    """solvePDE with the same terms given as list / tuple / iterator / generator / map / dict view / deque"""
    import collections
    n = 0
    rng = random.Random(f"{prop}cont-{ctx.seed}")
    for cname in gen.CLASSES:
        fs = gen.mesh_case(rng, cname, nmax=3, nmin=2)
        mesh = gen.build_mesh(pf, cname, fs)
        d = gen.DIM[cname]
        dims = tuple(int(k) for k in mesh.dims)
        L = {"cls": cname, "faces": [list(map(float, f)) for f in fs]}
        try:
            with np.errstate(all="ignore"):
                c = 2.5
                D = mkface(pf, mesh, [ival(rng, s, 1, 3) + 0.5 for s in face_shapes(mesh)])
                beta = pf.CellVariable(mesh, ival(rng, dims, 1, 3) + 0.5)
                if prop == "c06":      # beta*phi = gamma with the uniform solution c, plus diffusion of it
                    gam = pf.CellVariable(mesh, c * np.asarray(beta.value)); p0 = np.full(dims, c)
                else:
                    gam = pf.CellVariable(mesh, ival(rng, dims, 0, 4) + 0.25); p0 = ival(rng, dims, 0, 4) + 0.5
                def terms(v):
                    Mt, Rt = pf.transientTerm(v, 0.5, 1.0)
                    return [Mt, Rt, -pf.diffusionTerm(D), pf.linearSourceTerm(beta), pf.constantSourceTerm(gam)]
                def solve(wrap):
                    v = pf.CellVariable(mesh, p0)
                    for _ in range(2):
                        pf.solvePDE(v, wrap(terms(v)))
                    return np.array(v._value)
                ref = solve(list)
                forms = [("tuple", tuple), ("iter(list)", iter), ("generator", lambda t: (x for x in t)), ("map", lambda t: map(lambda x: x, t)),
                         ("dict.values()", lambda t: dict(enumerate(t)).values()), ("collections.deque", collections.deque), ("reversed(list)", lambda t: reversed(t[::-1]))]
                for tag, wrap in forms:
                    got = solve(wrap); n += 1
                    if relsc(got, ref) > 1e-12:
                        what = {"c06": f"a uniform field c = {c} with beta*c = gamma does not stay uniform (max deviation {float(np.max(np.abs(got[interior_slices(d)] - c))):.3g})",
                                "c02": "the stored numbers are not the solution of the documented equation (some terms were dropped)",
                                "c04": "the stored values do not solve the assembled system"}[prop]
                        ctx.violation(f"{prop}:{cname}:terms-as-{tag.split('(')[0].split('.')[-1]}", f"{cname}: solvePDE with the terms given as a {tag} instead of a list: {what} (rel {relsc(got, ref):.3g} from the list form)", dict(L, container=tag)); break
        except Exception as ex:
            ctx.violation(f"{prop}:{cname}:terms-container-raise", f"{cname}: solvePDE with the terms in another iterable raised {type(ex).__name__}: {ex}", L)
    return n


def bc_broadcast_c08(ctx, pf):
    """boundary data that do not vary along one axis of the face, given as a column / a row / without the unit axis, through the
    coefficient attributes and through the utility methods: the face must hold the broadcast data (and the solution on the 3D grid equal
    the one obtained from full arrays)"""
    n = 0
    rng = random.Random(f"c08bcast-{ctx.seed}")
    for cname in gen.CLASSES:
        d = gen.DIM[cname]
        if d == 1:
            continue
        fs = gen.mesh_case(rng, cname, nmax=4, nmin=3)
        mesh = gen.build_mesh(pf, cname, fs)
        L0 = {"cls": cname, "faces": [list(map(float, f)) for f in fs]}
        D = pf.FaceVariable(mesh, 1.0)
        for ax in range(d):
            if gen.AXKIND[cname][ax] == "rad" and False:
                continue
            for side in SIDES[ax]:
                S = tuple(np.asarray(getattr(pf.BoundaryConditions(mesh), side).a).shape)       # natural shape of the face data
                free = [a for a in range(len(S)) if S[a] > 1]
                forms = [("full array", S), ("one element: shape (1,)", (1,))]
                if len(S) == 2:
                    for a in free:
                        sh = list(S); sh[a] = 1
                        forms.append((f"constant along face axis {a}: shape {tuple(sh)}", tuple(sh)))
                    forms.append((f"constant along face axis 0: shape {(S[1],)}", (S[1],)))
                for tag, sh in forms:
                    val = ival(rng, sh, 1, 9) + 0.5
                    want = np.broadcast_to(val, S)
                    L = dict(L0, side=side, form=tag, value=val.tolist())
                    calls = [("c = value", lambda f: setattr(f, "c", val), (None, None, want)),
                             ("fixedValue(value)", lambda f: f.fixedValue(val), (0.0, 1.0, want)),
                             ("fixedGradient(value)", lambda f: f.fixedGradient(val), (1.0, 0.0, want)),
                             ("fixedGradient(value, scale_coeffs=2.0)", lambda f: f.fixedGradient(val, 2.0), (2.0, 0.0, 2.0 * want)),
                             ("newtonCooling(1.5, 2.0, value)", lambda f: f.newtonCooling(1.5, 2.0, val), (1.5, 2.0, 2.0 * want)),
                             ("newtonCooling(value, 2.0, 3.0)", lambda f: f.newtonCooling(val, 2.0, 3.0), (want, 2.0, 6.0)),
                             ("newtonCooling(1.5, 2.0, value, reverse_direction=True)", lambda f: f.newtonCooling(1.5, 2.0, val, reverse_direction=True), (1.5, -2.0, -2.0 * want)),
                             ("newtonCooling(1.5, 2.0, value, True)", lambda f: f.newtonCooling(1.5, 2.0, val, True), (1.5, -2.0, -2.0 * want)),
                             ("fixedValue(7) then defaultNoFlux()", lambda f: (f.fixedValue(7.0), f.defaultNoFlux()), (1.0, 0.0, 0.0))]
                    for cn, call, (wa, wb, wc) in calls:
                        try:
                            B = pf.BoundaryConditions(mesh); f = getattr(B, side)
                            call(f); n += 1
                            bad = [k for k, w, g in (("a", wa, f.a), ("b", wb, f.b), ("c", wc, f.c)) if w is not None and relsc(np.asarray(g), np.broadcast_to(np.asarray(w, dtype=float), np.asarray(g).shape)) > 1e-14]
                            if bad:
                                ctx.violation(f"c08:{cname}:bc-broadcast:{cn.split('(')[0].split(' ')[0]}", f"{cname}: {side}.{cn} with boundary data {tag} does not store the data constant along that axis (coefficient {bad} differs from the broadcast array): the solution is not constant along the redundant coordinate",
                                              dict(L, call=cn)); raise StopIteration
                        except StopIteration:
                            break
                        except Exception as ex:
                            ctx.violation(f"c08:{cname}:bc-broadcast-raise", f"{cname}: {side}.{cn} with data {tag} raised {type(ex).__name__}: {ex}", dict(L, call=cn)); break
                # one solve with Dirichlet data in column form against the full form
                try:
                    if len(S) == 2 and free:
                        sh = list(S); sh[free[-1]] = 1
                        val = ival(rng, tuple(sh), 1, 9) + 0.5
                        def solve(v):
                            B = pf.BoundaryConditions(mesh); getattr(B, side).fixedValue(v)
                            x = pf.CellVariable(mesh, 0.0, B)
                            pf.solvePDE(x, [-pf.diffusionTerm(D), pf.linearSourceTerm(pf.CellVariable(mesh, 1.0))])
                            return np.array(x._value)
                        with np.errstate(all="ignore"):
                            a = solve(val); b = solve(np.broadcast_to(val, S).copy())
                        n += 1
                        if relsc(a, b) > 1e-12:
                            ctx.violation(f"c08:{cname}:bc-broadcast-solve", f"{cname}: Dirichlet data on `{side}` given as an array of shape {tuple(sh)} (constant along one axis) give another solution than the same data as a full array (rel {relsc(a, b):.3g})", dict(L0, side=side, value=val.tolist()))
                except Exception as ex:
                    ctx.violation(f"c08:{cname}:bc-broadcast-solve-raise", f"{cname}: solve with broadcast boundary data raised {type(ex).__name__}: {ex}", dict(L0, side=side))
    return n


def tiny_values_c11(ctx, pf):
    """positive data of magnitude 1e-18 .. 1e-120 and 1e+120, with exact zeros: the means are homogeneous of degree one, lie between
    the neighbours and only EXACT zeros give the zero convention"""
    n = 0
    rng = random.Random(f"c11tiny-{ctx.seed}")
    for cname in gen.CLASSES:
        fs = gen.mesh_case(rng, cname, nmax=3, nmin=2)
        mesh = gen.build_mesh(pf, cname, fs)
        d = gen.DIM[cname]
        base = ival(rng, full_shape(mesh), 1, 6) + 0.5
        zpos = rng.randrange(base.size)
        uarr = [ival(rng, s, -1, 1) for s in face_shapes(mesh)]
        def means(arr):
            v = pf.CellVariable(mesh, arr)
            out = {k: getattr(pf, k)(v) for k in ("linearMean", "arithmeticMean", "geometricMean", "harmonicMean")}
            out["upwindMean"] = pf.upwindMean(v, mkface(pf, mesh, uarr))
            return {k: [np.asarray(c, dtype=float) for c in (f._xvalue, f._yvalue, f._zvalue)[:d]] for k, f in out.items()}
        for zeros in (False, True):
            b0 = base.copy()
            if zeros:
                b0.flat[zpos] = 0.0
            try:
                with np.errstate(all="ignore"):
                    ref = means(b0)
                for scale in (1e-18, 3e-17, 1e-60, 1e-120, 1e+120):
                    L = {"cls": cname, "faces": [list(map(float, f)) for f in fs], "phi_with_ghosts": (b0 * scale).tolist(), "scale": scale}
                    with np.errstate(all="ignore"):
                        got = means(b0 * scale)
                    for k in ref:
                        n += 1
                        dev = max(relsc(g / scale, r) for g, r in zip(got[k], ref[k]))
                        if dev > 1e-12:
                            # name a face: lower / upper neighbour and the value
                            ctx.violation(f"c11:{cname}:{k}:magnitude", f"{cname}: {k} of positive data of magnitude {scale:g}{' (one exact zero)' if zeros else ''} is not {scale:g} times the mean of the same data of magnitude 1 (rel {dev:.3g}): the face value is not a mean of the two adjacent cell values",
                                          dict(L, mean=k)); break
            except Exception as ex:
                ctx.violation(f"c11:{cname}:magnitude-raise", f"{cname}: means of tiny / huge data raised {type(ex).__name__}: {ex}", {"cls": cname})
    return n


def fsign_clamp_c13(ctx, pf):
    """the zero guard clamps tiny non-zero denominators to +-eps1, and the TVD correction stays finite on fields that mix differences of
    order one with non-zero differences down to the smallest denormal"""
    n = 0
    adv = pf.advection
    import inspect
    eps1 = inspect.signature(adv._fsign).parameters["eps1"].default
    pts = []
    for s in (1.0, -1.0):
        for k in (5e-324, 1e-310, 2.3e-308, 1e-300, 1e-100, 1e-20, eps1 / 2, float(np.nextafter(eps1, 0))):
            pts.append(s * k)
    with np.errstate(all="ignore"):
        out = adv._fsign(np.array(pts))
        out0 = [float(adv._fsign(np.float64(x))) for x in pts]
    for x, y, y0 in zip(pts, out, out0):
        n += 1
        if not (abs(y) >= eps1 * (1 - 1e-12)) or np.sign(y) != np.sign(x) or y0 != y:
            ctx.violation("c13:fsign-clamp", f"_fsign({x!r}) = {y!r} (scalar call: {y0!r}): a non-zero value below the threshold {eps1:g} must become {np.sign(x) * eps1!r}, otherwise the gradient ratio overflows", {"x": x, "eps1": eps1}); break
    names = ["CHARM", "HCUS", "HQUICK", "ospre", "VanLeer", "VanAlbada1", "VanAlbada2", "MinMod", "SUPERBEE", "Osher", "Sweby", "smart", "Koren", "MUSCL", "QUICK", "UMIST"]
    profiles = [("steps of 1 next to steps of 5e-324", [1.0, 0.0, 5e-324, 1e-323, 1.0, 2.0, 2.0, 1.0]),
                ("steps of 1e10 next to steps of 1e-310", [1e10, 0.0, 1e-310, 3e-310, -1e10, 0.0, 1e-310, 0.0]),
                ("exp(-90 i): decays from 1 through the denormals to 0", [float(np.exp(-90.0 * i)) for i in range(12)]),
                ("1e-300 * small integers next to 1e+10", [0.0, 1e-300, 3e-300, 1e10, 1e10, 2e-300, 0.0, -1e10])]
    for cname in gen.CLASSES:
        d = gen.DIM[cname]
        for pname, prof in profiles:
            N0 = len(prof) - 2
            Ns = [N0, 2, 2][:d]
            mesh = getattr(pf, cname)(*Ns, *([float(k) for k in Ns]))
            shape = full_shape(mesh)
            for axis in range(d):
                if axis > 0:
                    # the same profile along another axis
                    Ns2 = [2] * d; Ns2[axis] = N0
                    mesh = getattr(pf, cname)(*Ns2, *([float(k) if gen.AXKIND[cname][a] not in ("ang", "pol") else 1.0 for a, k in enumerate(Ns2)]))
                    shape = full_shape(mesh)
                sh = [1] * d; sh[axis] = -1
                for sgn in (1.0, -1.0):
                    arr = np.broadcast_to((sgn * np.array(prof)).reshape(sh), shape).copy()
                    phi = pf.CellVariable(mesh, arr)
                    for usign in (1.0, -1.0):
                        u = pf.FaceVariable(mesh, usign)
                        for nm in names:
                            with np.errstate(all="ignore"):
                                r = pf.convectionTVDupwindRHSTerm(u, phi, pf.fluxLimiter(nm))
                            n += 1
                            if not np.all(np.isfinite(r)):
                                ctx.violation(f"c13:tvd-tiny-differences:{nm}", f"TVD correction with '{nm}' on {cname} (profile along axis {axis}) is not finite for a finite field with {pname}",
                                              {"cls": cname, "limiter": nm, "profile": (sgn * np.array(prof)).tolist(), "axis": axis, "u": usign}); break
    return n


def huge_shape_c16(ctx, pf):
    """shape families of initial values on grids with 150 000 cells along one axis"""
    n = 0
    N = 150_000
    cases = [("Grid1D", (N,)), ("CylindricalGrid1D", (N,)), ("SphericalGrid1D", (N,)), ("Grid2D", (N, 2)), ("Grid2D", (2, N)), ("CylindricalGrid2D", (N, 1)), ("PolarGrid2D", (1, N))]
    for cname, Ns in cases:
        d = len(Ns)
        try:
            mesh = getattr(pf, cname)(*Ns, *([1.0] * d))
        except Exception as ex:
            ctx.violation(f"c16:{cname}:huge-grid", f"{cname}{Ns}: documented constructor form raised {type(ex).__name__}: {ex}", {"cls": cname, "N": list(Ns)}); continue
        good = [tuple(Ns), tuple(k + 2 for k in Ns)]
        bad = []
        for a in range(d):
            for off in (-1, 1, 3, 10, 1000, -1000):
                for b in good:
                    t = list(b); t[a] += off
                    if tuple(t) not in good and all(k > 0 for k in t):
                        bad.append(tuple(t))
        bad.append(tuple(2 * k for k in Ns)); bad.append(tuple(k + 1 for k in Ns))
        for shp in good:
            try:
                v = pf.CellVariable(mesh, np.zeros(shp)); n += 1
                if tuple(v._value.shape) != good[1]:
                    ctx.violation(f"c16:{cname}:huge-shape-valid", f"{cname}{Ns}: initial array of shape {shp} stored with shape {tuple(v._value.shape)}", {"cls": cname, "N": list(Ns), "shape": list(shp)})
            except Exception as ex:
                ctx.violation(f"c16:{cname}:huge-shape-valid", f"{cname}{Ns}: valid initial array of shape {shp} raised {type(ex).__name__}", {"cls": cname, "N": list(Ns), "shape": list(shp)})
        for shp in sorted(set(bad)):
            try:
                pf.CellVariable(mesh, np.zeros(shp)); got = "accepted"
            except ValueError:
                got = "ValueError"
            except Exception as ex:
                got = type(ex).__name__
            n += 1
            if got != "ValueError":
                ctx.violation(f"c16:{cname}:huge-shape", f"{cname}{Ns}: an initial array of shape {shp} fits neither the grid nor the grid with ghost cells, documented: ValueError, got: {got}", {"cls": cname, "N": list(Ns), "shape": list(shp)}); break
    return n


def fine_units_c17(ctx, pf):
    """unit changes on WELL-RESOLVED smooth profiles (a few hundred cells along one axis, cell-to-cell differences ~1e-3 of the amplitude):
    the TVD correction and an upwind + TVD + diffusion step rescale by exactly K"""
    n = 0
    rng = random.Random(f"c17fine-{ctx.seed}")
    UNITS = [(1e-6, 1.0, 1e-6), (1e-6, 1e3, 1e-3), (1e-5, 1e-3, 1e-6), (1e3, 1.0, 1e3), (1e6, 1e-6, 1e6), (1e-4, 1e2, 1e4), (1e4, 1.0, 1e-4)]
    LIMS = ["SUPERBEE", "VanLeer", "MinMod", "Koren"]
    for ci, cname in enumerate(gen.CLASSES):
        d = gen.DIM[cname]
        for axis in range(d):
            NF = 240 if d == 1 else (120 if d == 2 else 60)
            Ns = [2] * d; Ns[axis] = NF
            kinds = gen.AXKIND[cname]
            fs = []
            for a in range(d):
                N = Ns[a]
                w = np.array([1.0 + 0.4 * np.sin(2.0 * np.pi * (i + 0.5) / N) for i in range(N)])
                x = np.concatenate([[0.0], np.cumsum(w)]); x = x / x[-1]
                if kinds[a] == "rad": x = 0.5 + x
                elif kinds[a] == "ang": x = x * 1.5
                elif kinds[a] == "pol": x = 0.4 + x * 1.2
                fs.append(x)
            lenlike = [kinds[a] in ("len", "rad") for a in range(d)]
            def build(L):
                return gen.build_mesh(pf, cname, [f * (L if lenlike[a] else 1.0) for a, f in enumerate(fs)])
            m0 = build(1.0)
            s = (np.arange(NF + 2) - 0.5) / NF
            sh = [1] * d; sh[axis] = -1
            prof = 1.0 + 0.5 * np.exp(-((s - 0.45) / 0.18) ** 2) + 0.1 * np.sin(2 * np.pi * s)
            p0 = np.broadcast_to(prof.reshape(sh), full_shape(m0)).copy()
            for usign in (1.0, -1.0):
                lim = LIMS[(ci + axis + (usign < 0)) % len(LIMS)]
                # every velocity component is a length per time (u_theta too)
                def run(L, T, K):
                    mesh = build(L)
                    uv = []
                    for a, shp in enumerate(face_shapes(mesh)):
                        uv.append(np.full(shp, (usign * (0.7 if a == axis else 0.0)) * (L / T)))
                    u = mkface(pf, mesh, uv)
                    phi = pf.CellVariable(mesh, p0 * K)
                    FL = pf.fluxLimiter(lim)
                    r = np.asarray(pf.convectionTVDupwindRHSTerm(u, phi, FL)) * T / K
                    Dv = pf.FaceVariable(mesh, 1e-4 * L * L / T)
                    x = pf.CellVariable(mesh, p0 * K)
                    for _ in range(2):
                        rhs = pf.convectionTVDupwindRHSTerm(u, x, FL)
                        pf.solvePDE(x, [pf.transientTerm(x, 0.002 * T, 1.0), pf.convectionUpwindTerm(u), rhs, -pf.diffusionTerm(Dv)])
                    return r, np.array(x._value) / K
                try:
                    with np.errstate(all="ignore"):
                        r0, x0 = run(1.0, 1.0, 1.0)
                        for (L, T, K) in UNITS:
                            r1, x1 = run(L, T, K)
                            n += 2
                            Lb = {"cls": cname, "cells": Ns, "axis": axis, "limiter": lim, "u_sign": usign, "L": L, "T": T, "K": K}
                            if relsc(r1, r0) > 1e-9:
                                ctx.violation(f"c17:{cname}:fine-tvd", f"{cname} ({NF} cells along axis {axis}, smooth profile): the TVD correction ('{lim}') in units L={L:g}, T={T:g}, K={K:g} is not K/T times the one in the original units (rel {relsc(r1, r0):.3g})", Lb); raise StopIteration
                            if relsc(x1, x0) > 1e-9:
                                ctx.violation(f"c17:{cname}:fine-solve", f"{cname} ({NF} cells along axis {axis}, smooth profile): two upwind + TVD + diffusion steps in units L={L:g}, T={T:g}, K={K:g} do not give K times the solution in the original units (rel {relsc(x1, x0):.3g})", Lb); raise StopIteration
                except StopIteration:
                    pass
                except Exception as ex:
                    ctx.violation(f"c17:{cname}:fine-raise", f"{cname}: fine-grid unit change raised {type(ex).__name__}: {ex}", {"cls": cname, "axis": axis})
    return n


extra_c01 = _chain(extra_c01, big_c01, lambda ctx, pf: coef_dtype_c05(ctx, pf, "c01"))
extra_c03 = _chain(extra_c03, tiny_edits_c03)
extra_c04 = _chain(extra_c04, extra_c04_more, big_c04)
extra_c05 = _chain(extra_c05, lambda ctx, pf: coef_dtype_c05(ctx, pf, "c05"))
extra_c07 = _chain(extra_c07, lambda ctx, pf: coef_dtype_c05(ctx, pf, "c07"))
extra_c09 = _chain(extra_c09, tiny_edits_c09)
extra_c10 = _chain(extra_c10, scale_c10)
extra_c12 = _chain(extra_c12, alpha_repr_c12)
extra_c14 = _chain(extra_c14, operand_kinds_c14)
extra_c15 = _chain(extra_c15, results_alias_c15)
extra_c02 = lambda ctx, pf: term_containers(ctx, pf, "c02")
extra_c04 = _chain(extra_c04, lambda ctx, pf: term_containers(ctx, pf, "c04"))
extra_c06 = _chain(extra_c06, lambda ctx, pf: term_containers(ctx, pf, "c06"))
extra_c08 = _chain(extra_c08, bc_broadcast_c08)
extra_c11 = _chain(extra_c11, tiny_values_c11)
extra_c13 = _chain(extra_c13, fsign_clamp_c13)
extra_c16 = _chain(extra_c16, huge_shape_c16)
extra_c17 = _chain(extra_c17, fine_units_c17)


# ------------------------------------------------------------------ round 6: a coefficient FaceVariable edited in place between two calls
def face_reuse(ctx, pf, prop):
    """every builder that takes a FaceVariable, called again with the SAME object after its component arrays were changed in place
    (`u.xvalue[:] = new`, the usual idiom, which no setter sees) or by assignment: the second result must be the one a fresh
    FaceVariable with the current values gives (a cache keyed on the object, invalidated only by assignment, would return the old one)"""
    n = 0
    rng = random.Random(f"{prop}facereuse-{ctx.seed}")
    FL = pf.fluxLimiter("SUPERBEE")
    for cname in gen.CLASSES:
        fs = gen.mesh_case(rng, cname, nmax=3, nmin=2)
        mesh = gen.build_mesh(pf, cname, fs)
        d = gen.DIM[cname]
        L = {"cls": cname, "faces": [list(map(float, f)) for f in fs]}
        shapes = face_shapes(mesh)
        phi = pf.CellVariable(mesh, ival(rng, tuple(int(k) for k in mesh.dims), 0, 4) + 0.5)
        builders = [("convectionUpwindTerm", lambda u: mat(pf.convectionUpwindTerm(u))),
                    ("convectionTVDupwindRHSTerm", lambda u: np.asarray(pf.convectionTVDupwindRHSTerm(u, phi, FL))),
                    ("convectionTerm", lambda u: mat(pf.convectionTerm(u))),
                    ("diffusionTerm", lambda u: mat(pf.diffusionTerm(u))),
                    ("divergenceTerm", lambda u: np.asarray(pf.divergenceTerm(u))),
                    ("upwindMean", lambda u: np.concatenate([np.ravel(c) for c in (pf.upwindMean(phi, u)._xvalue, pf.upwindMean(phi, u)._yvalue, pf.upwindMean(phi, u)._zvalue)]))]
        comps = ["_xvalue", "_yvalue", "_zvalue"][:d]
        def edit_inplace(u, new):
            for cn, a in zip(comps, new):
                getattr(u, cn)[...] = a
        def edit_accessor(u, new):
            # through the public accessors of the class (the getter hands out the stored array)
            for k, a in enumerate(new):
                for lab in (["xvalue", "rvalue"], ["yvalue", "zvalue", "thetavalue"], ["zvalue", "phivalue"])[k]:
                    try:
                        arr = getattr(u, lab)
                    except AttributeError:
                        continue
                    if np.shape(arr) == np.shape(a):
                        arr[:] = a
                        break
        def edit_assign(u, new):
            for cn, a in zip(comps, new):
                setattr(u, cn, np.array(a))
        for bname, build in builders:
            for ename, edit in (("u.<label>value[:] = new", edit_accessor), ("in-place write into the component arrays", edit_inplace), ("assignment of new component arrays", edit_assign)):
                try:
                    with np.errstate(all="ignore"):
                        old = [ival(rng, s, -2, 2) + 0.25 for s in shapes]
                        u = mkface(pf, mesh, [a.copy() for a in old])
                        b1 = build(u)
                        new = [-(a[::-1].copy()) * 1.5 + ival(rng, a.shape, 0, 1) for a in old]
                        edit(u, new)
                        b2 = build(u)
                        bf = build(mkface(pf, mesh, [a.copy() for a in new]))
                    n += 1
                    if np.shape(b2) != np.shape(bf) or relsc(b2, bf) > 1e-13:
                        ctx.violation(f"{prop}:{cname}:{bname}:face-reuse",
                                      f"{cname}: {bname} called again with the same FaceVariable after `{ename}` does not use its current values "
                                      f"(rel {relsc(b2, bf) if np.shape(b2) == np.shape(bf) else float('nan'):.3g}; first call rel {relsc(b1, bf) if np.shape(b1) == np.shape(bf) else float('nan'):.3g} from the new values)",
                                      dict(L, builder=bname, edit=ename, old=[a.tolist() for a in old], new=[a.tolist() for a in new]))
                        break
                except Exception as ex:
                    ctx.violation(f"{prop}:{cname}:{bname}:face-reuse-raise", f"{cname}: {bname} on an edited FaceVariable raised {type(ex).__name__}: {ex}", dict(L, builder=bname, edit=ename))
                    break
    return n


extra_c06 = _chain(extra_c06, lambda ctx, pf: face_reuse(ctx, pf, "c06"))
extra_c05 = _chain(extra_c05, lambda ctx, pf: face_reuse(ctx, pf, "c05"))


# ------------------------------------------------------------------ round 6: operands whose boundary conditions are in a particular state
def bc_states_c14(ctx, pf):
    """operators / copy / funceval on variables whose boundary-condition object is in each of the states a solution variable goes through:
    default or edited coefficients x periodic flags on some axis or none x dirty flags raised (just configured) or clean (after apply_BCs
    or a solve).  The result must carry boundary conditions EQUAL to the operand's (coefficients and periodic flags of every side), with
    boundary values consistent with them, and stay independent of the operand."""
    import operator as op
    SIDES = ["left", "right", "bottom", "top", "back", "front"]
    n = 0
    rng = random.Random(f"c14bcstate-{ctx.seed}")
    results = [("var * 2.0", lambda v: v * 2.0), ("2 * var", lambda v: 2 * v), ("-var", lambda v: -v), ("abs(var)", lambda v: abs(v)),
               ("var ** 2", lambda v: v ** 2), ("var + var", lambda v: v + v), ("var.copy()", lambda v: v.copy()),
               ("funceval(sin, var)", lambda v: pf.funceval(np.sin, v)), ("celleval(sin, var)", lambda v: pf.celleval(np.sin, v) if hasattr(pf, "celleval") else pf.funceval(np.sin, v))]
    for cname in gen.CLASSES:
        d = gen.DIM[cname]
        fs = gen.mesh_case(rng, cname, nmax=3, nmin=2, uniform=True)
        mesh = gen.build_mesh(pf, cname, fs)
        dims = tuple(int(k) for k in mesh.dims)
        per_axes = [a for a in range(d) if gen.AXKIND[cname][a] != "rad"]
        for periodic_axis in [None] + per_axes:
            for coeffs in ("default", "dirichlet-elsewhere"):
                for state in ("dirty", "clean"):
                    L = {"cls": cname, "faces": [list(map(float, f)) for f in fs], "periodic_axis": periodic_axis, "coefficients": coeffs, "flags": state}
                    try:
                        with np.errstate(all="ignore"):
                            bc = pf.BoundaryConditions(mesh)
                            if periodic_axis is not None:
                                getattr(bc, SIDES[2 * periodic_axis]).periodic = True
                                getattr(bc, SIDES[2 * periodic_axis + 1]).periodic = True
                            if coeffs != "default":
                                for a in range(d):
                                    if a != periodic_axis and gen.AXKIND[cname][a] != "rad":
                                        getattr(bc, SIDES[2 * a + 1]).fixedValue(1.5)
                            v = pf.CellVariable(mesh, ival(rng, dims, 1, 5) + 0.5, bc)
                            if state == "clean":
                                v.apply_BCs()
                            snap = np.array(v._value, dtype=float)
                            for rname, make in results:
                                r = make(v)
                                n += 1
                                # equal boundary conditions
                                for s in SIDES[:2 * d]:
                                    fo, fr = getattr(v.BCs, s), getattr(r.BCs, s)
                                    if bool(fo.periodic) != bool(fr.periodic) or not (np.array_equal(np.asarray(fo.a), np.asarray(fr.a)) and np.array_equal(np.asarray(fo.b), np.asarray(fr.b)) and np.array_equal(np.asarray(fo.c), np.asarray(fr.c))):
                                        ctx.violation(f"c14:{cname}:bc-state", f"{cname}: the result of {rname} on a variable with {coeffs} coefficients, periodic axis {periodic_axis}, {state} flags does not carry the operand's boundary conditions on side '{s}' (periodic {bool(fo.periodic)} -> {bool(fr.periodic)})", dict(L, result=rname, side=s))
                                        raise StopIteration
                                # boundary values consistent with them: recomputing them changes nothing
                                stored = np.array(r._value, dtype=float)
                                r.apply_BCs()
                                if relsc(stored, np.array(r._value, dtype=float)) > 1e-13:
                                    ctx.violation(f"c14:{cname}:bc-state-ghosts", f"{cname}: the boundary values of the result of {rname} ({coeffs} coefficients, periodic axis {periodic_axis}, {state} flags) are not the ones its boundary conditions give", dict(L, result=rname))
                                    raise StopIteration
                                if not np.array_equal(snap, np.array(v._value, dtype=float)):
                                    ctx.violation(f"c14:{cname}:bc-state-operand", f"{cname}: {rname} changed its operand", dict(L, result=rname)); raise StopIteration
                    except StopIteration:
                        pass
                    except Exception as ex:
                        ctx.violation(f"c14:{cname}:bc-state-raise", f"{cname}: operators on a variable with {coeffs} coefficients / periodic axis {periodic_axis} / {state} flags raised {type(ex).__name__}: {ex}", L)
    return n


extra_c14 = _chain(extra_c14, bc_states_c14)


# ------------------------------------------------------------------ round 6: ONE term list object used for several solves
def list_reuse(ctx, pf, prop):
    """terms can be reused in a time loop -- and so can the LIST that holds them: solvePDE called several times with the same list object
    (after changing the boundary conditions, and for a second variable) must solve what a fresh list gives, and must leave the list alone"""
    import copy as _copy
    n = 0
    rng = random.Random(f"{prop}listreuse-{ctx.seed}")
    for cname in gen.CLASSES:
        d = gen.DIM[cname]
        fs = gen.mesh_case(rng, cname, nmax=3, nmin=2)
        mesh = gen.build_mesh(pf, cname, fs)
        dims = tuple(int(k) for k in mesh.dims)
        L = {"cls": cname, "faces": [list(map(float, f)) for f in fs]}
        try:
            with np.errstate(all="ignore"):
                D = pf.FaceVariable(mesh, 1.0)
                src = pf.CellVariable(mesh, ival(rng, dims, 1, 3) + 0.5)
                def mk():
                    return [-pf.diffusionTerm(D), pf.linearSourceTerm(1.0 + 0 * src), pf.constantSourceTerm(src)]
                terms = mk()
                items = list(terms)
                last = "right" if d == 1 else ("top" if d == 2 else "front")       # a non-radial side of every class
                phi = pf.CellVariable(mesh, 0.0); getattr(phi.BCs, last).fixedValue(1.0)
                psi = pf.CellVariable(mesh, 0.0); getattr(psi.BCs, last).fixedValue(-2.0)
                steps = [("first call", phi, None), ("second call after changing the boundary value", phi, 5.0), ("call for a second variable with other boundary conditions", psi, None),
                         ("fourth call, first variable again", phi, None)]
                for desc, var, newval in steps:
                    if newval is not None:
                        getattr(var.BCs, last).fixedValue(newval)
                    ref = pf.CellVariable(mesh, np.array(var.value), _copy.deepcopy(var.BCs))
                    pf.solvePDE(var, terms)
                    pf.solvePDE(ref, mk())
                    n += 1
                    if len(terms) != len(items) or any(a is not b for a, b in zip(terms, items)):
                        ctx.violation(f"{prop}:{cname}:list-reuse-mutated", f"{cname}: solvePDE changed the term list it was given ({len(items)} -> {len(terms)} elements) [{desc}]", dict(L, step=desc)); break
                    if relsc(np.array(var._value, dtype=float), np.array(ref._value, dtype=float)) > 1e-10:
                        ctx.violation(f"{prop}:{cname}:list-reuse", f"{cname}: solvePDE with a term list object that was used before ({desc}) does not give what a fresh list gives (rel {relsc(np.array(var._value, dtype=float), np.array(ref._value, dtype=float)):.3g})", dict(L, step=desc)); break
        except Exception as ex:
            ctx.violation(f"{prop}:{cname}:list-reuse-raise", f"{cname}: repeated solves with one term list raised {type(ex).__name__}: {ex}", L)
    return n


extra_c04 = _chain(extra_c04, lambda ctx, pf: list_reuse(ctx, pf, "c04"))
extra_c15 = _chain(extra_c15, lambda ctx, pf: list_reuse(ctx, pf, "c15"))


# ------------------------------------------------------------------ session 3: the plot profile
def profile_c03(ctx, pf):
    """CellVariable.plotprofile(): coordinates = (first face, cell centres, last face) per axis; values = interior values, and at every face
    ghost position the value AT the boundary face (average of ghost and inner cell), which for Dirichlet data is the configured value"""
    n = 0
    rng = random.Random(f"c03profile-{ctx.seed}")
    SIDES = [("left", "right"), ("bottom", "top"), ("back", "front")]
    for cname in gen.CLASSES:
        d = gen.DIM[cname]
        for rep in range(2):
            fs = gen.mesh_case(rng, cname, nmax=4, nmin=2)
            mesh = gen.build_mesh(pf, cname, fs)
            dims = tuple(int(k) for k in mesh.dims)
            L = {"cls": cname, "faces": [list(map(float, f)) for f in fs]}
            try:
                with np.errstate(all="ignore"):
                    bc = pf.BoundaryConditions(mesh)
                    dval = {}
                    for a in range(d):
                        for hi, s in enumerate(SIDES[a]):
                            if rng.random() < 0.6 and not (gen.AXKIND[cname][a] == "rad" and hi == 0 and fs[a][0] == 0.0):
                                dval[(a, hi)] = float(rng.randint(-3, 3)) + 0.5
                                getattr(bc, s).fixedValue(dval[(a, hi)])
                    v = pf.CellVariable(mesh, ival(rng, dims, 1, 5) + 0.25, bc)
                    prof = v.plotprofile()
                    vals = np.asarray(prof[-1], dtype=float)
                    full = np.asarray(v._value, dtype=float)
                    n += 1
                    cen = [mesh.cellcenters._x, mesh.cellcenters._y, mesh.cellcenters._z]; fac = [mesh.facecenters._x, mesh.facecenters._y, mesh.facecenters._z]
                    for a in range(d):
                        want = np.hstack([fac[a][0], cen[a], fac[a][-1]])
                        if np.ravel(prof[a]).shape != want.shape or relsc(np.ravel(prof[a]), want) > 1e-14:
                            ctx.violation(f"c03:{cname}:profile-coords", f"{cname}: plotprofile coordinates of axis {a} are not (first face, cell centres, last face)", dict(L, axis=a)); raise StopIteration
                    if vals.shape != full.shape:
                        ctx.violation(f"c03:{cname}:profile-shape", f"{cname}: plotprofile values have shape {vals.shape}, the padded array has {full.shape}", L); raise StopIteration
                    inner = tuple(slice(1, -1) for _ in range(d))
                    if relsc(vals[inner], full[inner]) > 1e-14:
                        ctx.violation(f"c03:{cname}:profile-interior", f"{cname}: plotprofile changes interior values", L); raise StopIteration
                    for a in range(d):
                        for hi in (0, 1):
                            g = tuple((0 if not hi else -1) if b == a else slice(1, -1) for b in range(d))
                            i_ = tuple((1 if not hi else -2) if b == a else slice(1, -1) for b in range(d))
                            want = 0.5 * (full[g] + full[i_])
                            if relsc(vals[g], want) > 1e-13:
                                ctx.violation(f"c03:{cname}:profile-face", f"{cname}: plotprofile on the {SIDES[a][hi]} face is not the average of the stored ghost and inner values (rel {relsc(vals[g], want):.3g})", dict(L, side=SIDES[a][hi])); raise StopIteration
                            if (a, hi) in dval and relsc(vals[g], np.full(np.shape(vals[g]), dval[(a, hi)])) > 1e-12:
                                ctx.violation(f"c03:{cname}:profile-dirichlet", f"{cname}: plotprofile on the {SIDES[a][hi]} face does not report the Dirichlet value {dval[(a, hi)]}", dict(L, side=SIDES[a][hi])); raise StopIteration
            except StopIteration:
                pass
            except Exception as ex:
                ctx.violation(f"c03:{cname}:profile-raise", f"{cname}: plotprofile raised {type(ex).__name__}: {ex}", L)
    return n


extra_c03 = _chain(extra_c03, profile_c03)


# ------------------------------------------------------------------ session 3: location variables
def locations_c10(ctx, pf):
    """cellLocations / faceLocations: the coordinate of every cell centre / face centre, broadcast over the grid (values, not only purity)"""
    n = 0
    rng = random.Random(f"c10loc-{ctx.seed}")
    for cname in gen.CLASSES:
        d = gen.DIM[cname]
        fs = gen.mesh_case(rng, cname, nmax=4, nmin=1)
        mesh = gen.build_mesh(pf, cname, fs)
        dims = [int(k) for k in mesh.dims]
        L = {"cls": cname, "faces": [list(map(float, f)) for f in fs]}
        cen = [np.asarray(c, dtype=float) for c in (mesh.cellcenters._x, mesh.cellcenters._y, mesh.cellcenters._z)[:d]]
        fac = [np.asarray(c, dtype=float) for c in (mesh.facecenters._x, mesh.facecenters._y, mesh.facecenters._z)[:d]]
        def along(v, b, shape):
            sh = [1] * d; sh[b] = -1
            return np.broadcast_to(np.reshape(v, sh), shape)
        try:
            cl = pf.cellLocations(mesh)
            cl = cl if isinstance(cl, tuple) else (cl,)
            n += 1
            if len(cl) != d:
                ctx.violation(f"c10:{cname}:cellLocations", f"{cname}: cellLocations returns {len(cl)} variables for a {d}-dimensional grid", L)
            for b, v in enumerate(cl[:d]):
                want = along(cen[b], b, tuple(dims))
                got = np.asarray(v.value, dtype=float)
                if got.shape != want.shape or relsc(got, want) > 1e-14:
                    ctx.violation(f"c10:{cname}:cellLocations", f"{cname}: cellLocations component {b} is not the coordinate of the cell centres along axis {b}", dict(L, axis=b)); break
            fl = pf.faceLocations(mesh)
            fl = fl if isinstance(fl, tuple) else (fl,)
            n += 1
            for a, F in enumerate(fl[:d]):
                shp = tuple(dims[b] + (1 if b == a else 0) for b in range(d))
                comps = [F._xvalue, F._yvalue, F._zvalue][:d]
                for b in range(d):
                    want = along(fac[a] if b == a else cen[b], b, shp)
                    got = np.asarray(comps[b], dtype=float)
                    if got.shape != want.shape or relsc(got, want) > 1e-14:
                        ctx.violation(f"c10:{cname}:faceLocations", f"{cname}: faceLocations: coordinate {b} of the faces normal to axis {a} is wrong (shape {got.shape}, expected {want.shape})", dict(L, normal=a, coordinate=b)); break
        except Exception as ex:
            ctx.violation(f"c10:{cname}:locations-raise", f"{cname}: cellLocations / faceLocations raised {type(ex).__name__}: {ex}", L)
    return n


extra_c10 = _chain(extra_c10, locations_c10)


# ================================================================== round 7
def scribble_results_c15(ctx, pf):
    """every builder's result is fully owned by the caller: after scribbling over EVERYTHING the first result holds (values and, for sparse
    matrices, the index arrays; structural in-place methods such as eliminate_zeros on coefficients with exact zeros), a second call with
    the same inputs must give what the first call gave (snapshot taken before the scribble)"""
    n = 0
    rng = random.Random(f"c15scribble-{ctx.seed}")
    for cname in gen.CLASSES:
        fs = gen.mesh_case(rng, cname, nmax=4, nmin=2)
        mesh = gen.build_mesh(pf, cname, fs)
        dims = tuple(int(k) for k in mesh.dims)
        L = {"cls": cname, "faces": [list(map(float, f)) for f in fs]}
        coef = ival(rng, dims, 0, 2).astype(float)          # exact zeros in some cells
        coef.flat[0] = 0.0
        phi = pf.CellVariable(mesh, ival(rng, dims, 1, 5) + 0.5); beta = pf.CellVariable(mesh, coef)
        fa = [ival(rng, s, 0, 2).astype(float) for s in face_shapes(mesh)]
        D = mkface(pf, mesh, fa); FL = pf.fluxLimiter("SUPERBEE")
        calls = [("linearSourceTerm", lambda: pf.linearSourceTerm(beta)), ("constantSourceTerm", lambda: pf.constantSourceTerm(beta)),
                 ("transientTerm", lambda: pf.transientTerm(phi, 0.5, beta)), ("diffusionTerm", lambda: pf.diffusionTerm(D)),
                 ("convectionTerm", lambda: pf.convectionTerm(D)), ("convectionUpwindTerm", lambda: pf.convectionUpwindTerm(D)),
                 ("convectionTVDupwindRHSTerm", lambda: pf.convectionTVDupwindRHSTerm(D, phi, FL)), ("divergenceTerm", lambda: pf.divergenceTerm(D)),
                 ("gradientTerm", lambda: pf.gradientTerm(phi)), ("boundaryConditionsTerm", lambda: pf.boundaryConditionsTerm(phi.BCs)),
                 ("linearMean", lambda: pf.linearMean(phi)), ("harmonicMean", lambda: pf.harmonicMean(beta)), ("upwindMean", lambda: pf.upwindMean(phi, D))]
        def flat(r):
            out = []
            def walk(x):
                if isinstance(x, (tuple, list)):
                    for y in x: walk(y)
                elif hasattr(x, "_xvalue"):
                    out.extend([("arr", x._xvalue), ("arr", x._yvalue), ("arr", x._zvalue)])
                elif hasattr(x, "_value"):
                    out.append(("arr", x._value))
                elif hasattr(x, "tocsr"):
                    out.append(("sp", x))
                elif isinstance(x, np.ndarray):
                    out.append(("arr", x))
            walk(r); return out
        def dense(items):
            return [np.asarray(x.toarray(), dtype=float) if k == "sp" else np.array(x, dtype=float) for k, x in items]
        for nm, call in calls:
            try:
                with np.errstate(all="ignore"):
                    r1 = flat(call()); ref = dense(r1)
                    for k, x in r1:
                        if k == "sp":
                            for attr in ("eliminate_zeros", "sum_duplicates", "sort_indices"):
                                if hasattr(x, attr):
                                    getattr(x, attr)()
                            for attr in ("data", "indices", "indptr", "row", "col"):
                                a = getattr(x, attr, None)
                                if isinstance(a, np.ndarray) and a.size and a.flags.writeable:
                                    a[...] = 0
                        elif isinstance(x, np.ndarray) and x.size and x.flags.writeable:
                            x[...] = -7.0
                    r2 = dense(flat(call()))
                n += 1
                if len(r2) != len(ref) or any(a.shape != b.shape or not np.array_equal(a, b, equal_nan=True) for a, b in zip(r2, ref)):
                    ctx.violation(f"c15:{cname}:{nm}:scribble", f"{cname}: after the first result of {nm} was overwritten in place (values, index arrays, eliminate_zeros) a second call with the same inputs returns something else: results share storage with each other or with a hidden cache", dict(L, call=nm))
            except Exception as ex:
                ctx.violation(f"c15:{cname}:{nm}:scribble-raise", f"{cname}: {nm} after scribbling over its first result raised {type(ex).__name__}: {ex}", dict(L, call=nm))
    return n


def inplace_ops_c14(ctx, pf):
    """augmented assignments (v += x, ...) are operator applications too: the library defines no in-place operators, so `v += x` binds the name
    to a NEW variable and leaves the object other references point to unchanged"""
    import operator as op
    n = 0
    rng = random.Random(f"c14iop-{ctx.seed}")
    IOPS = [("+=", op.iadd), ("-=", op.isub), ("*=", op.imul), ("/=", op.itruediv), ("**=", op.ipow)]
    for cname in ("Grid1D", "CylindricalGrid2D", "Grid3D"):
        fs = gen.mesh_case(rng, cname, nmax=3, nmin=2)
        mesh = gen.build_mesh(pf, cname, fs)
        dims = tuple(int(k) for k in mesh.dims)
        L = {"cls": cname, "faces": [list(map(float, f)) for f in fs]}
        for kind in ("cell", "face"):
            for sym, f in IOPS:
                for oname, mk in (("2.5", lambda: 2.5), ("variable", None), ("ndarray", None)):
                    try:
                        with np.errstate(all="ignore"):
                            if kind == "cell":
                                v = pf.CellVariable(mesh, ival(rng, dims, 1, 5) + 0.5); v.BCs.left.fixedValue(2.0); v.apply_BCs()
                                other = {"2.5": 2.5, "variable": pf.CellVariable(mesh, ival(rng, dims, 1, 3) + 0.25), "ndarray": ival(rng, dims, 1, 3) + 0.75}[oname]
                                snap = [np.array(v._value, dtype=float), np.array(v.BCs.left.c, dtype=float)]
                                now = lambda: [np.array(v._value, dtype=float), np.array(v.BCs.left.c, dtype=float)]
                            else:
                                if oname == "ndarray":
                                    continue
                                v = mkface(pf, mesh, [ival(rng, s, 1, 5) + 0.5 for s in face_shapes(mesh)])
                                other = {"2.5": 2.5, "variable": mkface(pf, mesh, [ival(rng, s, 1, 3) + 0.25 for s in face_shapes(mesh)])}[oname]
                                snap = [np.array(a, dtype=float) for a in (v._xvalue, v._yvalue, v._zvalue)]
                                now = lambda: [np.array(a, dtype=float) for a in (v._xvalue, v._yvalue, v._zvalue)]
                            r = f(v, other)
                        n += 1
                        if r is v or any(not np.array_equal(a, b) for a, b in zip(snap, now())):
                            ctx.violation(f"c14:{kind}:inplace:{sym}", f"{cname}: `{kind}var {sym} {oname}` changed the object its left operand referred to (other references to it see the change) instead of producing a new variable", dict(L, kind=kind, op=sym, operand=oname)); break
                        if kind == "cell" and (np.shares_memory(np.asarray(r._value), np.asarray(v._value)) or r.BCs is v.BCs):
                            ctx.violation(f"c14:{kind}:inplace-alias:{sym}", f"{cname}: the result of `{kind}var {sym} {oname}` shares storage / boundary conditions with the old object", dict(L, kind=kind, op=sym, operand=oname)); break
                    except TypeError:
                        continue          # an operator the class does not support with this operand kind: not this probe's business
                    except Exception as ex:
                        ctx.violation(f"c14:{kind}:inplace-raise:{sym}", f"{cname}: `{kind}var {sym} {oname}` raised {type(ex).__name__}: {ex}", dict(L, kind=kind, op=sym, operand=oname)); break
    return n


def sparse_formats_c04(ctx, pf):
    """matrix terms in every scipy sparse format / class (a user-built or converted term: csc, coo, lil, dia, csr_matrix, transposed twice):
    the solve is the one the csr_array form gives"""
    import scipy.sparse as sp
    n = 0
    rng = random.Random(f"c04fmt-{ctx.seed}")
    conv = [("tocsc()", lambda M: M.tocsc()), ("tocoo()", lambda M: M.tocoo()), ("tolil()", lambda M: M.tolil()), ("todia()", lambda M: M.todia()),
            ("csr_matrix(M)", lambda M: sp.csr_matrix(M)), ("csc_matrix(M)", lambda M: sp.csc_matrix(M)), ("M.T.T", lambda M: M.T.T), ("M.T.tocsr().T", lambda M: M.T.tocsr().T)]
    for cname in ("Grid1D", "CylindricalGrid1D", "Grid2D", "PolarGrid2D", "Grid3D"):
        fs = gen.mesh_case(rng, cname, nmax=3, nmin=2)
        mesh = gen.build_mesh(pf, cname, fs)
        dims = tuple(int(k) for k in mesh.dims)
        L = {"cls": cname, "faces": [list(map(float, f)) for f in fs]}
        try:
            with np.errstate(all="ignore"):
                u = mkface(pf, mesh, [ival(rng, s, 1, 3) + 0.5 for s in face_shapes(mesh)])       # non-symmetric upwind matrix
                D = pf.FaceVariable(mesh, 1.0)
                def solve(c):
                    phi = pf.CellVariable(mesh, ival(random.Random(7), dims, 1, 4) + 0.5); phi.BCs.right.fixedValue(1.0) if hasattr(phi.BCs, "right") else None
                    Mu = pf.convectionUpwindTerm(u); Mt, Rt = pf.transientTerm(phi, 0.5, 1.0)
                    pf.solvePDE(phi, [c(Mu), -pf.diffusionTerm(D), (c(Mt), Rt)])
                    return np.array(phi._value, dtype=float)
                ref = solve(lambda M: M)
                for nm, c in conv:
                    try:
                        got = solve(c)
                    except Exception as ex:
                        ctx.violation(f"c04:{cname}:format-raise", f"{cname}: solvePDE with matrix terms given as {nm} raised {type(ex).__name__}: {ex}", dict(L, form=nm)); break
                    n += 1
                    if relsc(got, ref) > 1e-11:
                        ctx.violation(f"c04:{cname}:format", f"{cname}: solvePDE with matrix terms given as {nm} does not solve the system of the csr_array form (rel {relsc(got, ref):.3g}): the term entered the system as another matrix", dict(L, form=nm)); break
        except Exception as ex:
            ctx.violation(f"c04:{cname}:format-harness", f"{cname}: sparse-format probe raised {type(ex).__name__}: {ex}", L)
    return n


def untracked_edits_c03(ctx, pf):
    """boundary coefficient arrays changed through numpy operations that no setter sees (fill, np.copyto, in-place arithmetic on an alias,
    out=, put): the boundary equations the next solvePDE uses and the boundary values it reports must both be those of the current arrays"""
    import copy as _copy
    n = 0
    rng = random.Random(f"c03untracked-{ctx.seed}")
    edits = [("c.fill(v)", lambda f, v: f.c.fill(v)), ("np.copyto(c, v)", lambda f, v: np.copyto(f.c, v)), ("alias = f.c; alias *= 0; alias += v", lambda f, v: (f.c.__imul__(0.0), f.c.__iadd__(v))),
             ("np.multiply(c, 0, out=c); np.add(c, v, out=c)", lambda f, v: (np.multiply(f.c, 0.0, out=np.asarray(f.c)), np.add(f.c, v, out=np.asarray(f.c)))),
             ("c.flat[:] = v", lambda f, v: f.c.flat.__setitem__(slice(None), v)), ("np.asarray(c)[...] = v", lambda f, v: np.asarray(f.c).__setitem__(Ellipsis, v))]
    for cname in gen.CLASSES:
        d = gen.DIM[cname]
        fs = gen.mesh_case(rng, cname, nmax=3, nmin=2)
        mesh = gen.build_mesh(pf, cname, fs)
        dims = tuple(int(k) for k in mesh.dims)
        side = "right" if d == 1 else ("top" if d == 2 else "front")
        L = {"cls": cname, "faces": [list(map(float, f)) for f in fs], "side": side}
        D = pf.FaceVariable(mesh, 1.0)
        for ename, edit in edits:
            for precalc in (True, False):
                try:
                    with np.errstate(all="ignore"):
                        v = pf.CellVariable(mesh, ival(rng, dims, 1, 4) + 0.5, BCsTerm_precalc=precalc)
                        getattr(v.BCs, side).fixedValue(1.0)
                        pf.solvePDE(v, [pf.transientTerm(v, 0.5, 1.0), -pf.diffusionTerm(D)])
                        edit(getattr(v.BCs, side), 4.0)
                        fresh = pf.CellVariable(mesh, np.array(v.value), _copy.deepcopy(v.BCs))
                        for w in (v, fresh):
                            pf.solvePDE(w, [pf.transientTerm(w, 0.5, 1.0), -pf.diffusionTerm(D)])
                    n += 1
                    if not np.all(np.asarray(getattr(fresh.BCs, side).c) == 4.0):
                        continue            # the edit did not take (not a supported way of writing on this numpy version)
                    if relsc(np.array(v._value, dtype=float), np.array(fresh._value, dtype=float)) > 1e-10:
                        ctx.violation(f"c03:{cname}:untracked-edit", f"{cname}: after `{ename}` on the '{side}' coefficient array (BCsTerm_precalc={precalc}) solvePDE does not use / report the current boundary data: result differs from a variable built from the same values and boundary conditions (rel {relsc(np.array(v._value, dtype=float), np.array(fresh._value, dtype=float)):.3g})", dict(L, edit=ename, precalc=precalc)); break
                except Exception as ex:
                    ctx.violation(f"c03:{cname}:untracked-edit-raise", f"{cname}: `{ename}` then solvePDE raised {type(ex).__name__}: {ex}", dict(L, edit=ename)); break
    return n


def odd_meshes(rng, cname, kind):
    """face arrays the random generator never produces: nearly uniform spacing (relative perturbations 1e-8 .. 1e-3 of the cell width), a thin
    graded domain far from the origin, and (for identities that are purely algebraic) a DEscending first axis"""
    d = gen.DIM[cname]
    fs = []
    for a in range(d):
        ak = gen.AXKIND[cname][a]
        n = rng.randint(3, 6)
        if kind.startswith("near-uniform"):
            eps = float(kind.split(":")[1])
            h = 0.25 if ak in ("ang", "pol") else 0.5
            x0 = {"len": 0.0, "rad": 0.5, "ang": 0.0, "pol": 0.25}[ak]
            f = x0 + h * np.arange(n + 1) + h * eps * np.array([rng.uniform(-1, 1) for _ in range(n + 1)])
        elif kind.startswith("far-origin"):
            ratio = float(kind.split(":")[1])
            steps = np.array([rng.choice([0.125, 0.25, 0.5, 1.0]) for _ in range(n)])
            if ak in ("len", "rad"):
                w = steps.sum(); f = w * ratio + np.concatenate([[0.0], np.cumsum(steps)])
            else:
                f = np.concatenate([[0.0], np.cumsum(steps)]) * (0.25 / steps.sum() * n) * 0.2
        else:
            f = gen.faces(rng, ak, n)
        fs.append(np.array(f, dtype=float))
    if kind == "descending":
        fs[0] = fs[0][::-1].copy()
    return fs


def odd_meshes_c10(ctx, pf):
    n = 0
    rng = random.Random(f"c10odd-{ctx.seed}")
    for cname in gen.CLASSES:
        d = gen.DIM[cname]
        for kind in ("near-uniform:1e-3", "near-uniform:1e-5", "near-uniform:3e-6", "near-uniform:1e-7", "near-uniform:1e-9", "far-origin:1e2", "far-origin:1e4", "far-origin:1e6"):
            fs = odd_meshes(rng, cname, kind)
            L = {"cls": cname, "kind": kind, "faces": [list(map(float, f)) for f in fs]}
            try:
                mesh = gen.build_mesh(pf, cname, fs)
                cs = [mesh.cellsize._x, mesh.cellsize._y, mesh.cellsize._z][:d]
                cc = [mesh.cellcenters._x, mesh.cellcenters._y, mesh.cellcenters._z][:d]
                fc = [mesh.facecenters._x, mesh.facecenters._y, mesh.facecenters._z][:d]
                n += 1
                for a in range(d):
                    f = fs[a]; want = f[1:] - f[:-1]
                    got = np.asarray(cs[a], dtype=float)
                    w = float(np.max(np.abs(want)))
                    if got.shape != (len(f) + 1,) or np.max(np.abs(got[1:-1] - want)) > 1e-9 * w or abs(got[0] - want[0]) > 1e-9 * w or abs(got[-1] - want[-1]) > 1e-9 * w:
                        ctx.violation(f"c10:{cname}:odd-mesh-sizes", f"{cname}: on a {kind} grid the cell sizes of axis {a} are not the face differences (max deviation {float(np.max(np.abs(got[1:-1] - want))) / w:.3g} of the largest cell)", dict(L, axis=a)); break
                    if np.max(np.abs(np.asarray(fc[a], dtype=float) - f)) > 0 or np.max(np.abs(np.asarray(cc[a], dtype=float) - 0.5 * (f[1:] + f[:-1]))) > 1e-12 * (1 + np.max(np.abs(f))):
                        ctx.violation(f"c10:{cname}:odd-mesh-centres", f"{cname}: on a {kind} grid faces / centres of axis {a} are not as given / midway", dict(L, axis=a)); break
            except Exception as ex:
                ctx.violation(f"c10:{cname}:odd-mesh-raise", f"{cname}: a {kind} grid raised {type(ex).__name__}: {ex}", L)
    return n


def odd_meshes_c01(ctx, pf):
    """conservation on the same unusual grids: interior face fluxes cancel with respect to cellvolume"""
    from common import volumes
    n = 0
    rng = random.Random(f"c01odd-{ctx.seed}")
    for cname in gen.CLASSES:
        d = gen.DIM[cname]
        for kind in ("near-uniform:1e-3", "near-uniform:3e-6", "near-uniform:1e-7", "far-origin:1e3"):
            fs = odd_meshes(rng, cname, kind)
            fs = [np.concatenate([f, f[-1] + (f[-1] - f[-2]) * np.arange(1, 4)]) if len(f) < 7 else f for f in fs]     # at least 6 cells per axis
            if any(gen.AXKIND[cname][a] in ("ang", "pol") and fs[a][-1] > 3.0 for a in range(d)):
                continue
            L = {"cls": cname, "kind": kind, "faces": [list(map(float, f)) for f in fs]}
            try:
                with np.errstate(all="ignore"):
                    mesh = gen.build_mesh(pf, cname, fs)
                    V = volumes(pf, mesh, cname)
                    shape = full_shape(mesh)
                    ph = np.zeros(shape); inner = tuple(slice(3, -3) for _ in shape)
                    ph[inner] = np.array([rng.uniform(0.5, 2.0) for _ in range(int(np.prod(ph[inner].shape)))]).reshape(ph[inner].shape)
                    phi = pf.CellVariable(mesh, ph); v = phi._value.ravel()
                    Dv = mkface(pf, mesh, [ival(rng, s, 1, 3) + 0.5 for s in face_shapes(mesh)])
                    uv = mkface(pf, mesh, [ival(rng, s, -2, 2) + 0.25 for s in face_shapes(mesh)])
                    terms = [("diffusionTerm", pf.diffusionTerm(Dv) @ v), ("convectionTerm", pf.convectionTerm(uv) @ v), ("convectionUpwindTerm", pf.convectionUpwindTerm(uv) @ v)]
                for what, t in terms:
                    n += 1
                    ti = np.asarray(t).reshape(shape)[tuple(slice(1, -1) for _ in shape)]
                    tot = float(np.sum(V * ti)); scale = float(np.sum(np.abs(V * ti))) + 1e-300
                    if abs(tot) > 1e-10 * scale:
                        ctx.violation(f"c01:{cname}:odd-mesh:{what}", f"{cname}: {what} on a {kind} grid: interior face fluxes do not cancel with respect to cellvolume (relative {abs(tot) / scale:.3g})", dict(L, what=what)); break
            except Exception as ex:
                ctx.violation(f"c01:{cname}:odd-mesh-raise", f"{cname}: conservation probe on a {kind} grid raised {type(ex).__name__}: {ex}", L)
    return n


def descending_c05(ctx, pf):
    """the identities of C05 are algebraic: they also hold on a grid whose first axis is given in DEscending order (signed cell sizes), on which
    the library computes as on any other face array; if the library refuses such a grid, nothing is checked"""
    from probes import fmul
    n = 0
    rng = random.Random(f"c05desc-{ctx.seed}")
    for cname in gen.CLASSES:
        d = gen.DIM[cname]
        fs = odd_meshes(rng, cname, "descending")
        L = {"cls": cname, "kind": "descending first axis", "faces": [list(map(float, f)) for f in fs]}
        try:
            with np.errstate(all="ignore"):
                mesh = gen.build_mesh(pf, cname, fs)
                phi = pf.CellVariable(mesh, gen.cell_array(rng, mesh)); v = phi._value.ravel()
                D = mkface(pf, mesh, [ival(rng, s, 1, 3) + 0.5 for s in face_shapes(mesh)]); u = mkface(pf, mesh, [ival(rng, s, -2, 2) + 0.25 for s in face_shapes(mesh)])
                pairs = [("diffusionTerm vs divergenceTerm(D*gradientTerm)", pf.diffusionTerm(D) @ v, pf.divergenceTerm(fmul(pf, mesh, D, pf.gradientTerm(phi)))),
                         ("convectionTerm vs divergenceTerm(u*linearMean)", pf.convectionTerm(u) @ v, pf.divergenceTerm(fmul(pf, mesh, u, pf.linearMean(phi)))),
                         ("convectionUpwindTerm vs divergenceTerm(u*upwindMean)", pf.convectionUpwindTerm(u) @ v, pf.divergenceTerm(fmul(pf, mesh, u, pf.upwindMean(phi, u))))]
        except Exception:
            continue
        shape = full_shape(mesh); inn = tuple(slice(1, -1) for _ in shape)
        for what, a, b in pairs:
            n += 1
            A = np.asarray(a).reshape(shape)[inn]; B = np.asarray(b).reshape(shape)[inn]
            if np.all(np.isfinite(A)) and np.all(np.isfinite(B)) and relsc(A, B) > 1e-10:
                ctx.violation(f"c05:{cname}:descending", f"{cname}: {what} on a grid whose first axis is given in descending order: max relative deviation {relsc(A, B):.3g}", dict(L, what=what)); break
    return n


def huge_1d_c12(ctx, pf):
    """one backward-Euler step on a Grid1D with 600 000 cells and a tiny dt (field with a large offset): it must satisfy the cell equation and
    agree with the explicit step to O(dt^2) -- size-dependent solver paths (iterative methods with relative stopping tests) show here"""
    n = 0
    N = 600000
    mesh = pf.Grid1D(N, 1.0)
    x = np.asarray(mesh.cellcenters._x, dtype=float)
    with np.errstate(all="ignore"):
        old = pf.CellVariable(mesh, 300.0 + 10.0 * np.cos(4 * np.pi * x))
        D = pf.FaceVariable(mesh, 1.0); dt = 1e-11
        Md = pf.diffusionTerm(D)
        imp = pf.CellVariable(mesh, np.array(old.value)); imp_old = np.array(imp._value, dtype=float)
        pf.solvePDE(imp, [pf.transientTerm(imp, dt, 1.0), -Md])
        rhs = Md @ np.asarray(old._value, dtype=float).ravel()
        exp_ = pf.solveExplicitPDE(old, dt, rhs)
    n += 1
    step = float(np.max(np.abs(np.asarray(exp_.value) - np.asarray(old.value))))
    dev = float(np.max(np.abs(np.asarray(imp.value) - np.asarray(exp_.value))))
    res = float(np.max(np.abs((np.asarray(imp._value) - imp_old)[1:-1] / dt - (Md @ np.asarray(imp._value, dtype=float).ravel())[1:-1])))
    rate = float(np.max(np.abs(rhs[1:-1])))
    # (the cell equation itself cannot be tested here: (new - old)/dt loses all digits to cancellation at dt = 1e-11 next to values of 300)
    if not (dev <= 1e-3 * step):
        ctx.violation("c12:Grid1D:huge", f"Grid1D with {N} cells, dt = {dt:g}: the implicit step differs from the explicit one by {dev:.3g} although the step itself is only {step:.3g} (agreement to O(dt^2) expected)",
                      {"cls": "Grid1D", "cells": N, "dt": dt, "profile": "300 + 10 cos(4 pi x)"})
    return n


extra_c15 = _chain(extra_c15, scribble_results_c15)
extra_c14 = _chain(extra_c14, inplace_ops_c14)
extra_c04 = _chain(extra_c04, sparse_formats_c04)
extra_c03 = _chain(extra_c03, untracked_edits_c03)
extra_c10 = _chain(extra_c10, odd_meshes_c10)
extra_c01 = _chain(extra_c01, odd_meshes_c01)
extra_c05 = _chain(extra_c05, descending_c05)
extra_c12 = _chain(extra_c12, huge_1d_c12)


def huge_2d_c07(ctx, pf):
    """one implicit step on a Grid2D with more than 500 000 unknowns (diffusion, upwind advection in a uniform velocity field, a local sink; Dirichlet 1 on
    the left, no-flux elsewhere; data 0 / 1): the result must stay inside [0, 1] to rounding -- solver paths chosen by problem size show here"""
    n = 0
    N = 720
    mesh = pf.Grid2D(N, N, 1.0, 1.0)
    with np.errstate(all="ignore"):
        x = np.asarray(mesh.cellcenters._x)[:, None]; y = np.asarray(mesh.cellcenters._y)[None, :]
        init = ((x > 0.3) & (x < 0.6) & (y > 0.2) & (y < 0.7)).astype(float)
        phi = pf.CellVariable(mesh, init); phi.BCs.left.fixedValue(1.0); phi.apply_BCs()
        D = pf.FaceVariable(mesh, 1e-3); u = pf.FaceVariable(mesh, 0.0); u._xvalue[...] = 1.0; u._yvalue[...] = 0.5
        beta = pf.CellVariable(mesh, ((x > 0.9) & (y > 0.9)).astype(float) * 0.5)
        Md = pf.diffusionTerm(D); Mu = pf.convectionUpwindTerm(u); Ms = pf.linearSourceTerm(beta)
        worst = 0.0; bad_dt = None
        for dt in (1e-3, 1e-2):
            pf.solvePDE(phi, [pf.transientTerm(phi, dt, 1.0), -Md, Mu, Ms])
            v = np.asarray(phi.value, dtype=float)
            n += 1
            over = max(float(np.max(v)) - 1.0, 0.0 - float(np.min(v))) if np.all(np.isfinite(v)) else float("inf")
            if over > worst:
                worst, bad_dt = over, dt
    if worst > 1e-11:
        ctx.violation("c07:Grid2D:huge", f"Grid2D {N} x {N} ({(N + 2) ** 2} unknowns): an implicit step (dt = {bad_dt:g}) of diffusion + upwind advection (uniform velocity) + sink leaves the range [0, 1] of the data by {worst:.3g}",
                      {"cls": "Grid2D", "cells": [N, N], "dt": bad_dt, "D": 1e-3, "u": [1.0, 0.5]})
    return n


extra_c07 = _chain(extra_c07, huge_2d_c07)
