(* Term-level corollaries: the matrix terms are divergences of single-valued face fluxes (C05),
   hence conservative (C01). *)
From Coq Require Import Arith List Bool Field Lia.
From PFV Require Import OField KOps Sums Grid Ops StencilThy ConservThy MeasureThy.
Import ListNotations.

Section Terms.
Variable F : FieldOps.
Variable L : FieldLaws F.
Add Field FFt : (FL_field F L).
Local Notation K := (K F).
Local Notation "0" := (k0 F).
Local Infix "+" := (kadd F).
Local Infix "*" := (kmul F).
Local Infix "-" := (ksub F).
Local Infix "/" := (kdiv F).
Local Notation two := (kadd F (k1 F) (k1 F)).
Local Notation Mesh := (Mesh F).

(* denominators of the stencils: cell weights and sums of adjacent cell sizes (ghost sizes included) *)
Record stencil_ok (m : Mesh) : Prop := {
  so_W : forall a i, active F m a = true -> 1 <= i <= mN F m a -> mW F m a i <> 0;
  so_DX : forall a i, active F m a = true -> 1 <= i <= mN F m a -> mDX F m a i <> 0;
  so_dxf : forall a f, active F m a = true -> f <= mN F m a -> mDX F m a f + mDX F m a (S f) <> 0
}.

Lemma dxf_neq_0 (m : Mesh) a f : mDX F m a f + mDX F m a (S f) <> 0 -> mdxf F m a f <> 0.
Proof.
  intros H. unfold mdxf, adxf. fold (mDX F m a f). fold (mDX F m a (S f)).
  apply (div_neq_0 F L); [exact H|apply (two_neq_0 F L)].
Qed.

Lemma sum_cells_ext_int (m : Mesh) f g :
  (forall c, interior F m c = true -> f c = g c) -> sum_cells F m f = sum_cells F m g.
Proof.
  intros H. unfold sum_cells. apply sum3_ext. intros i j k Hi Hj Hk. apply H.
  apply in_box_interior; assumption.
Qed.

Lemma interior_axis (m : Mesh) c a : interior F m c = true -> In a (active_axes F m) ->
  1 <= cidx a c <= mN F m a.
Proof. intros Hc Ha. apply (proj1 (interior_iff F m c) Hc). apply axes_active. exact Ha. Qed.

(* C05, cell by cell on every class: matrix * phi = divergence of the explicit face flux *)
Theorem diffusion_matrix_is_chain (m : Mesh) (D : fvar F) (phi : cvar F) c :
  stencil_ok m -> interior F m c = true ->
  apply_stencil F m (diffAW F m D) (diffAP F m D) (diffAE F m D) phi c
  = divergence F m (fmul F D (gradient F m phi)) c.
Proof.
  intros Hok Hc. unfold apply_stencil, divergence, sum_axes. f_equal. apply map_ext_in. intros a Ha.
  fold (active_axes F m) in Ha. pose proof (interior_axis m c a Hc Ha) as Hi.
  pose proof (axes_active F m a Ha) as Hact.
  apply (diffusion_is_div_grad F L).
  - lia.
  - apply (so_W m Hok); assumption.
  - apply dxf_neq_0. apply (so_dxf m Hok); [assumption|lia].
  - apply dxf_neq_0. replace (S (pred (cidx a c))) with (cidx a c) by lia.
    assert (E : mDX F m a (pred (cidx a c)) + mDX F m a (cidx a c) <> 0).
    { pose proof (so_dxf m Hok a (pred (cidx a c)) Hact ltac:(lia)) as H.
      replace (S (pred (cidx a c))) with (cidx a c) in H by lia. exact H. }
    exact E.
Qed.

Theorem central_matrix_is_chain (m : Mesh) (u : fvar F) (phi : cvar F) c :
  stencil_ok m -> interior F m c = true ->
  apply_stencil F m (cenAW F m u) (cenAP F m u) (cenAE F m u) phi c
  = divergence F m (fmul F u (linmean F m phi)) c.
Proof.
  intros Hok Hc. unfold apply_stencil, divergence, sum_axes. f_equal. apply map_ext_in. intros a Ha.
  fold (active_axes F m) in Ha. pose proof (interior_axis m c a Hc Ha) as Hi.
  pose proof (axes_active F m a Ha) as Hact.
  apply (central_is_div_linmean F L).
  - lia.
  - apply (so_W m Hok); assumption.
  - apply (so_DX m Hok); assumption.
  - apply (so_dxf m Hok); [assumption|lia].
  - pose proof (so_dxf m Hok a (pred (cidx a c)) Hact ltac:(lia)) as H.
    replace (S (pred (cidx a c))) with (cidx a c) in H by lia.
    intro E. apply H. rewrite <- E. ring.
Qed.

Theorem upwind_matrix_is_chain (m : Mesh) (u uup : fvar F) (phi : cvar F) c :
  stencil_ok m -> interior F m c = true ->
  apply_stencil F m (upwAW F m u uup) (upwAP F m u uup) (upwAE F m u uup) phi c
  = divergence F m (upwflux F m u uup phi) c.
Proof.
  intros Hok Hc. unfold apply_stencil, divergence, sum_axes. f_equal. apply map_ext_in. intros a Ha.
  fold (active_axes F m) in Ha. pose proof (interior_axis m c a Hc Ha) as Hi.
  pose proof (axes_active F m a Ha) as Hact.
  apply (upwind_is_div_upwflux F L); try lia. apply (so_W m Hok); assumption.
Qed.

(* divergence is linear in the flux and local *)
Lemma divergence_add (m : Mesh) (F1 F2 : fvar F) c :
  divergence F m (fun a c => F1 a c + F2 a c) c = divergence F m F1 c + divergence F m F2 c.
Proof.
  unfold divergence, sum_axes. induction (axes_of (mcls F m)) as [|a l IH]; cbn [map ksum fold_right].
  - ring.
  - unfold ksum in IH. rewrite IH. unfold divrow. ring.
Qed.
Lemma divergence_ext (m : Mesh) (F1 F2 : fvar F) c :
  (forall a, In a (active_axes F m) -> F1 a c = F2 a c /\ F1 a (cdn a c) = F2 a (cdn a c)) ->
  divergence F m F1 c = divergence F m F2 c.
Proof.
  intros H. unfold divergence, sum_axes. f_equal. apply map_ext_in. intros a Ha.
  destruct (H a Ha) as [E1 E2]. unfold divrow. rewrite E1, E2. reflexivity.
Qed.

(* C05, TVD identities *)
Theorem tvd_zero (fsgn : K -> K) (m : Mesh) (u uup : fvar F) (phi : cvar F) c :
  tvdrhs F fsgn (fun _ => 0) m u uup phi c = 0.
Proof.
  unfold tvdrhs, sum_axes. induction (axes_of (mcls F m)) as [|a l IH]; cbn [map ksum fold_right].
  - reflexivity.
  - unfold ksum in IH. rewrite IH, (tvd_zero_limiter F L). ring.
Qed.

Definition uniform_axes (m : Mesh) : Prop :=
  forall a f, active F m a = true -> f <= mN F m a -> mDX F m a (S f) = mDX F m a f.
Definition upwind_consistent (m : Mesh) (u uup : fvar F) : Prop :=
  forall a c, uup a c = 0 -> u a c = 0.

Theorem tvd_unit_uniform (fsgn : K -> K) (m : Mesh) (u uup : fvar F) (phi : cvar F) c :
  stencil_ok m -> uniform_axes m -> upwind_consistent m u uup -> interior F m c = true ->
  apply_stencil F m (upwAW F m u uup) (upwAP F m u uup) (upwAE F m u uup) phi c
  - tvdrhs F fsgn (fun _ => k1 F) m u uup phi c
  = apply_stencil F m (cenAW F m u) (cenAP F m u) (cenAE F m u) phi c.
Proof.
  intros Hok Hu Hc Hint.
  rewrite (upwind_matrix_is_chain m u uup phi c Hok Hint), (central_matrix_is_chain m u phi c Hok Hint).
  assert (E : tvdrhs F fsgn (fun _ => k1 F) m u uup phi c
              = kopp F (divergence F m (tvdflux F fsgn (fun _ => k1 F) m u uup phi) c)).
  { unfold tvdrhs, tvdrow, divergence, sum_axes.
    induction (axes_of (mcls F m)) as [|a l IH]; cbn [map ksum fold_right]; [ring|].
    unfold ksum in IH. rewrite IH. ring. }
  rewrite E.
  transitivity (divergence F m (fun a c => upwflux F m u uup phi a c
                                           + tvdflux F fsgn (fun _ => k1 F) m u uup phi a c) c).
  { rewrite divergence_add. ring. }
  apply divergence_ext. intros a Ha.
  pose proof (interior_axis m c a Hint Ha) as Hi. pose proof (axes_active F m a Ha) as Hact.
  split.
  - rewrite (tvd_unit_limiter_flux F L fsgn m u uup phi a c) by (try lia; apply Hc).
    unfold fmul. rewrite (linmean_uniform F L); [reflexivity| |].
    + apply Hu; [assumption|lia].
    + apply (so_DX m Hok); assumption.
  - rewrite (tvd_unit_limiter_flux F L fsgn m u uup phi a (cdn a c)) by (rewrite ?cidx_cdn; try lia; apply Hc).
    unfold fmul. rewrite (linmean_uniform F L); [reflexivity| |]; rewrite cidx_cdn.
    + apply Hu; [assumption|lia].
    + destruct (Nat.eq_dec (cidx a c) 1) as [E1|E1].
      * rewrite E1. cbn [pred].
        rewrite <- (Hu a O Hact ltac:(lia)). apply (so_DX m Hok); [assumption|lia].
      * apply (so_DX m Hok); [assumption|lia].
Qed.

(* C01: every flux-form term changes the V-weighted sum only through the boundary faces *)
Section Conservation.
Variable m : Mesh.
Variable V : cell -> K.
Variable T : axis -> cell -> K.
Hypothesis HM : forall a, In a (active_axes F m) -> measure_ok F m V T a.
Hypothesis Hok : stencil_ok m.

Definition boundary_flux (Fl : fvar F) : K :=
  ksum F (map (fun a => sum_lines F m a (bflux F m Fl T a)) (active_axes F m)).

Theorem divergence_term_conserved (Fl : fvar F) :
  sum_cells F m (fun c => V c * divergence F m Fl c) = boundary_flux Fl.
Proof. apply (divergence_conserved F L); exact HM. Qed.

Theorem diffusion_term_conserved (D : fvar F) (phi : cvar F) :
  sum_cells F m (fun c => V c * apply_stencil F m (diffAW F m D) (diffAP F m D) (diffAE F m D) phi c)
  = boundary_flux (fmul F D (gradient F m phi)).
Proof.
  rewrite <- divergence_term_conserved. apply sum_cells_ext_int. intros c Hc.
  rewrite (diffusion_matrix_is_chain m D phi c Hok Hc). reflexivity.
Qed.
Theorem central_term_conserved (u : fvar F) (phi : cvar F) :
  sum_cells F m (fun c => V c * apply_stencil F m (cenAW F m u) (cenAP F m u) (cenAE F m u) phi c)
  = boundary_flux (fmul F u (linmean F m phi)).
Proof.
  rewrite <- divergence_term_conserved. apply sum_cells_ext_int. intros c Hc.
  rewrite (central_matrix_is_chain m u phi c Hok Hc). reflexivity.
Qed.
Theorem upwind_term_conserved (u uup : fvar F) (phi : cvar F) :
  sum_cells F m (fun c => V c * apply_stencil F m (upwAW F m u uup) (upwAP F m u uup) (upwAE F m u uup) phi c)
  = boundary_flux (upwflux F m u uup phi).
Proof.
  rewrite <- divergence_term_conserved. apply sum_cells_ext_int. intros c Hc.
  rewrite (upwind_matrix_is_chain m u uup phi c Hok Hc). reflexivity.
Qed.
Theorem tvd_term_conserved (fsgn FLm : K -> K) (u uup : fvar F) (phi : cvar F) :
  sum_cells F m (fun c => V c * tvdrhs F fsgn FLm m u uup phi c)
  = kopp F (boundary_flux (tvdflux F fsgn FLm m u uup phi)).
Proof.
  rewrite <- divergence_term_conserved.
  transitivity (sum_cells F m (fun c => kopp F (k1 F) * (V c * divergence F m (tvdflux F fsgn FLm m u uup phi) c))).
  - apply (sum_cells_ext F). intros c. unfold tvdrhs, tvdrow, divergence, sum_axes.
    induction (axes_of (mcls F m)) as [|a l IH]; cbn [map ksum fold_right].
    + ring.
    + unfold ksum in IH.
      transitivity (kopp F (V c * divrow F m (tvdflux F fsgn FLm m u uup phi) a c)
                    + V c * fold_right (kadd F) 0 (map (fun a0 => kopp F (divrow F m (tvdflux F fsgn FLm m u uup phi) a0 c)) l)); [ring|].
      rewrite IH. ring.
  - rewrite (sum_cells_scal F L). ring.
Qed.
End Conservation.
End Terms.
