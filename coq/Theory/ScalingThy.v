(* C17: dimensional homogeneity. Two meshes of the same class related by a change of the length unit
   (length-like faces multiplied by Lc, angles unchanged) have metric weights related by fixed powers of Lc;
   from this every stencil coefficient, boundary coefficient and hence every row of the assembled system scales
   as the physical dimension of its term demands. *)
From Coq Require Import Arith List Bool Field Lia.
From PFV Require Import OField KOps Grid Ops Boundary Solver StencilThy MeasureThy SolverThy BoundaryThy.
Import ListNotations.

Section Scaling.
Variable F : FieldOps.
Variable L : FieldLaws F.
Add Field FFsc : (FL_field F L).
Local Notation K := (K F).
Local Notation "0" := (k0 F).
Local Notation "1" := (k1 F).
Local Infix "+" := (kadd F).
Local Infix "*" := (kmul F).
Local Infix "-" := (ksub F).
Local Infix "/" := (kdiv F).
Local Notation "- x" := (kopp F x).
Local Notation two := (kadd F (k1 F) (k1 F)).
Local Notation three := (kadd F (k1 F) (kadd F (k1 F) (k1 F))).
Local Notation Mesh := (Mesh F).

(* which axes carry a length (the others are angles) *)
Definition lengthlike (g : gclass) (a : axis) : bool :=
  match g, a with
  | (P2 | C3), AY => false
  | S3, (AY | AZ) => false
  | _, _ => true
  end.
Definition scale_axis (Lc : K) (a : Axis F) : Axis F := mkAxis F (aN F a) (fun i => Lc * axf F a i).
Definition scale_mesh (Lc : K) (m : Mesh) : Mesh :=
  mkMesh F (mcls F m) (fun a => if lengthlike (mcls F m) a then scale_axis Lc (max F m a) else max F m a)
         (mpi F m) (msinp F m) (msinf F m).

Definition lam (Lc : K) (g : gclass) (a : axis) : K := if lengthlike g a then Lc else 1.

Lemma aDX_scale (Lc : K) (a : Axis F) p : aDX F (scale_axis Lc a) p = Lc * aDX F a p.
Proof.
  unfold aDX, scale_axis. cbn [aN axf].
  destruct (Nat.eqb p 0); [ring|]. destruct (Nat.ltb (aN F a) p); ring.
Qed.
Lemma mDX_scale (Lc : K) (m : Mesh) a p : mDX F (scale_mesh Lc m) a p = lam Lc (mcls F m) a * mDX F m a p.
Proof.
  unfold mDX, scale_mesh, lam. cbn [max mcls]. destruct (lengthlike (mcls F m) a); [apply aDX_scale|ring].
Qed.
Lemma mN_scale (Lc : K) (m : Mesh) a : mN F (scale_mesh Lc m) a = mN F m a.
Proof. unfold mN, scale_mesh. cbn [max mcls]. destruct (lengthlike (mcls F m) a); reflexivity. Qed.
Lemma mrf_scale (Lc : K) (m : Mesh) f : mrf F (scale_mesh Lc m) f = Lc * mrf F m f.
Proof. unfold mrf, scale_mesh. cbn [max mcls]. destruct (mcls F m); reflexivity. Qed.
Lemma mrp_scale (Lc : K) (m : Mesh) p : mrp F (scale_mesh Lc m) p = Lc * mrp F m p.
Proof.
  unfold mrp, axc. fold (mrf F (scale_mesh Lc m) p). fold (mrf F (scale_mesh Lc m) (pred p)).
  fold (mrf F m p). fold (mrf F m (pred p)). rewrite !mrf_scale. field. apply (two_neq_0 F L).
Qed.
Lemma mdxf_scale (Lc : K) (m : Mesh) a f : mdxf F (scale_mesh Lc m) a f = lam Lc (mcls F m) a * mdxf F m a f.
Proof.
  unfold mdxf, adxf. fold (mDX F (scale_mesh Lc m) a f). fold (mDX F (scale_mesh Lc m) a (S f)).
  fold (mDX F m a f). fold (mDX F m a (S f)). rewrite !mDX_scale. field. apply (two_neq_0 F L).
Qed.

(* the metric weights pick up fixed powers of Lc *)
Definition alpha_ (Lc : K) (g : gclass) (a : axis) : K :=
  match g, a with (C1 | C2 | P2 | C3), AX => Lc | (S1 | S3), AX => Lc * Lc | _, _ => 1 end.
Definition omega_ (Lc : K) (g : gclass) (a : axis) : K :=
  match g, a with
  | (C1 | C2 | P2 | C3), AX => Lc * Lc
  | (S1 | S3), AX => Lc * Lc * Lc
  | _, _ => lam Lc g a
  end.
Definition phi_ (Lc : K) (g : gclass) (a : axis) : K :=
  match g, a with (P2 | C3 | S3), AY => 1 / Lc | S3, AZ => 1 / Lc | _, _ => 1 end.

Lemma mA_scale (Lc : K) (m : Mesh) a f : mA F (scale_mesh Lc m) a f = alpha_ Lc (mcls F m) a * mA F m a f.
Proof.
  unfold mA, alpha_. change (mcls F (scale_mesh Lc m)) with (mcls F m).
  destruct (mcls F m), a; rewrite ?mrf_scale; cbn [msinf scale_mesh]; ring.
Qed.
Lemma mW_scale (Lc : K) (m : Mesh) a p : mW F (scale_mesh Lc m) a p = omega_ Lc (mcls F m) a * mW F m a p.
Proof.
  unfold mW, omega_. change (mcls F (scale_mesh Lc m)) with (mcls F m).
  pose proof (FL_three F L) as H3.
  destruct (mcls F m) eqn:Ec, a; rewrite ?mrf_scale, ?mrp_scale, ?mDX_scale, ?Ec; unfold lam; cbn [lengthlike msinp scale_mesh];
    try ring; field; exact H3.
Qed.
(* the denominators of the transverse factor, where the class has one *)
Definition uses_rp (g : gclass) : bool := match g with P2 | C3 | S3 => true | _ => false end.
Definition fac_ok (m : Mesh) (c : cell) : Prop :=
  (uses_rp (mcls F m) = true -> mrp F m (cidx AX c) <> 0) /\ (mcls F m = S3 -> msinp F m (cidx AY c) <> 0).
Lemma mfac_scale (Lc : K) (m : Mesh) a c : Lc <> 0 -> fac_ok m c ->
  mfac F (scale_mesh Lc m) a c = phi_ Lc (mcls F m) a * mfac F m a c.
Proof.
  intros HL [Hr Hs]. unfold mfac, phi_. change (mcls F (scale_mesh Lc m)) with (mcls F m).
  destruct (mcls F m) eqn:Ec, a; rewrite ?mrp_scale; cbn [msinp scale_mesh uses_rp] in *; try ring;
    try specialize (Hr eq_refl); try specialize (Hs eq_refl); field; auto.
Qed.

(* the two consistency relations between the powers *)
Lemma lam_phi (Lc : K) g a : Lc <> 0 -> lam Lc g a = Lc * phi_ Lc g a.
Proof. intros HL. unfold lam, phi_. destruct g, a; cbn [lengthlike]; try ring; field; exact HL. Qed.
Lemma omega_alpha (Lc : K) g a : Lc <> 0 -> omega_ Lc g a = Lc * phi_ Lc g a * alpha_ Lc g a.
Proof. intros HL. unfold omega_, alpha_, phi_, lam. destruct g, a; cbn [lengthlike]; try ring; field; exact HL. Qed.

Section Coefs.
Variable Lc Tc : K.
Hypothesis HL : Lc <> 0.
Hypothesis HT : Tc <> 0.
Variable m : Mesh.
Let m' := scale_mesh Lc m.
Definition scaleD (D : fvar F) : fvar F := fun a c => Lc * Lc / Tc * D a c.
Definition scaleU (u : fvar F) : fvar F := fun a c => Lc / Tc * u a c.

Ltac prep a c :=
  unfold m'; rewrite ?mN_scale, ?mfac_scale, ?mA_scale, ?mW_scale, ?mdxf_scale, ?mDX_scale by assumption;
  rewrite ?omega_alpha, ?(lam_phi Lc (mcls F m) a) by assumption.

Lemma nz_phi a : phi_ Lc (mcls F m) a <> 0.
Proof.
  unfold phi_. destruct (mcls F m), a; try apply (FL_field F L).(F_1_neq_0);
  apply (div_neq_0 F L); try exact HL; apply (FL_field F L).(F_1_neq_0).
Qed.
Lemma nz_alpha a : alpha_ Lc (mcls F m) a <> 0.
Proof.
  unfold alpha_. destruct (mcls F m), a; try apply (FL_field F L).(F_1_neq_0); try exact HL;
  apply (mul_neq_0 F L); exact HL.
Qed.

(* diffusion coefficients: D -> (L^2/T) D gives coefficient / T *)
Theorem diffAE_scale (D : fvar F) a c : fac_ok m c ->
  mW F m a (cidx a c) <> 0 -> mdxf F m a (cidx a c) <> 0 ->
  diffAE F m' (scaleD D) a c = diffAE F m D a c / Tc.
Proof.
  intros Hf HW Hd. unfold diffAE, scaleD. prep a c.
  pose proof (nz_phi a). pose proof (nz_alpha a). field. repeat split; auto.
Qed.
Theorem diffAW_scale (D : fvar F) a c : fac_ok m c ->
  mW F m a (cidx a c) <> 0 -> mdxf F m a (pred (cidx a c)) <> 0 ->
  diffAW F m' (scaleD D) a c = diffAW F m D a c / Tc.
Proof.
  intros Hf HW Hd. unfold diffAW, scaleD. prep a c.
  pose proof (nz_phi a). pose proof (nz_alpha a). field. repeat split; auto.
Qed.
(* central advection: u -> (L/T) u gives coefficient / T *)
Theorem cenE_scale (u : fvar F) a c : fac_ok m c ->
  mW F m a (cidx a c) <> 0 -> mDX F m a (cidx a c) + mDX F m a (S (cidx a c)) <> 0 ->
  cenE F m' (scaleU u) a c = cenE F m u a c / Tc.
Proof.
  intros Hf HW Hd. unfold cenE, scaleU. prep a c.
  pose proof (nz_phi a). pose proof (nz_alpha a). field. repeat split; auto.
  intro E. apply Hd. 
  assert (E2 : Lc * phi_ Lc (mcls F m) a * (mDX F m a (cidx a c) + mDX F m a (S (cidx a c))) = 0) by (rewrite <- E; ring).
  transitivity (Lc * phi_ Lc (mcls F m) a * (mDX F m a (cidx a c) + mDX F m a (S (cidx a c))) / (Lc * phi_ Lc (mcls F m) a)).
  - field. auto.
  - rewrite E2. field. auto.
Qed.

Theorem cenW_scale (u : fvar F) a c : fac_ok m c ->
  mW F m a (cidx a c) <> 0 -> mDX F m a (cidx a c) + mDX F m a (pred (cidx a c)) <> 0 ->
  cenW F m' (scaleU u) a c = cenW F m u a c / Tc.
Proof.
  intros Hf HW Hd. unfold cenW, scaleU. prep a c.
  pose proof (nz_phi a). pose proof (nz_alpha a). field. repeat split; auto.
  intro E. apply Hd.
  assert (E2 : Lc * phi_ Lc (mcls F m) a * (mDX F m a (cidx a c) + mDX F m a (pred (cidx a c))) = 0) by (rewrite <- E; ring).
  transitivity (Lc * phi_ Lc (mcls F m) a * (mDX F m a (cidx a c) + mDX F m a (pred (cidx a c))) / (Lc * phi_ Lc (mcls F m) a)).
  - field. auto.
  - rewrite E2. field. auto.
Qed.
(* upwind advection at fixed upwind direction *)
Theorem upwAE_scale (u uup : fvar F) a c : fac_ok m c -> mW F m a (cidx a c) <> 0 ->
  upwAE F m' (scaleU u) uup a c = upwAE F m u uup a c / Tc.
Proof.
  intros Hf HW. unfold upwAE, half_if, is_hi, umin, scaleU. prep a c.
  pose proof (nz_phi a). pose proof (nz_alpha a). pose proof (two_neq_0 F L).
  destruct (Nat.eqb (cidx a c) (mN F m a)), (kltb F 0 (uup a c)); field; repeat split; auto.
Qed.
Theorem upwAW_scale (u uup : fvar F) a c : fac_ok m c -> mW F m a (cidx a c) <> 0 ->
  upwAW F m' (scaleU u) uup a c = upwAW F m u uup a c / Tc.
Proof.
  intros Hf HW. unfold upwAW, half_if, is_lo, umax, scaleU. prep a c.
  pose proof (nz_phi a). pose proof (nz_alpha a). pose proof (two_neq_0 F L).
  destruct (Nat.eqb (cidx a c) 1), (kltb F (uup a (cdn a c)) 0); field; repeat split; auto.
Qed.
Theorem upwAP_scale (u uup : fvar F) a c : fac_ok m c -> mW F m a (cidx a c) <> 0 ->
  upwAP F m' (scaleU u) uup a c = upwAP F m u uup a c / Tc.
Proof.
  intros Hf HW. unfold upwAP, is_lo, is_hi, umax, umin, scaleU. prep a c.
  pose proof (nz_phi a). pose proof (nz_alpha a). pose proof (two_neq_0 F L).
  destruct (Nat.eqb (cidx a c) 1), (Nat.eqb (cidx a c) (mN F m a)), (kltb F (uup a (cdn a c)) 0), (kltb F 0 (uup a (cdn a c))),
           (kltb F (uup a c) 0), (kltb F 0 (uup a c)); field; repeat split; auto.
Qed.

(* TVD correction vector (the convectionTvdRHS functions of advection.py).  The guard _fsign and the limiter are arbitrary functions here; the
   only thing asked of the guard is that it commutes with the change of units ON THE GRADIENTS THAT OCCUR (g_a = Kc / length
   unit of axis a): true of the code's guard whenever the gradient is zero-free above its absolute threshold in both unit
   systems (LimiterThy.fsign_id), false below it -- which is exactly the documented limit of the property. *)
Section TvdScale.
Variable fsgn FLim : K -> K.
Variable Kc : K.
Definition gsc (a : axis) : K := Kc / lam Lc (mcls F m) a.
Lemma nz_lam a : lam Lc (mcls F m) a <> 0.
Proof. unfold lam. destruct (lengthlike (mcls F m) a); [exact HL|apply (FL_field F L).(F_1_neq_0)]. Qed.
Lemma dphi_scale (phi : cvar F) a c : mdxf F m a (cidx a c) <> 0 ->
  dphi F m' (fun c => Kc * phi c) a c = gsc a * dphi F m phi a c.
Proof.
  intros Hd. unfold dphi, gsc, m'. rewrite mdxf_scale. pose proof (nz_lam a). field. split; auto.
Qed.
(* what a face needs: centre distances of the face and its two neighbours non-zero, guard value non-zero and commuting *)
Definition tvd_face_ok (phi : cvar F) (a : axis) (c : cell) : Prop :=
  mdxf F m a (cidx a c) <> 0 /\ mdxf F m a (cidx a (cdn a c)) <> 0 /\ mdxf F m a (cidx a (cup a c)) <> 0 /\
  fsgn (dphi F m phi a c) <> 0 /\
  fsgn (gsc a * dphi F m phi a c) = gsc a * fsgn (dphi F m phi a c).
Lemma ratio_cancel (g x y : K) : g <> 0 -> y <> 0 -> (g * x) / (g * y) = x / y.
Proof. intros Hg Hy. field. split; assumption. Qed.
Hypothesis HK : Kc <> 0.
Lemma nz_gsc a : gsc a <> 0.
Proof. unfold gsc. apply (div_neq_0 F L); [exact HK|apply nz_lam]. Qed.
Theorem psi_p_scale (phi : cvar F) a c : tvd_face_ok phi a c ->
  psi_p F fsgn FLim m' (fun c => Kc * phi c) a c = Kc * psi_p F fsgn FLim m phi a c.
Proof.
  intros (H0 & Hm & Hp & Hf & Hh). unfold psi_p.
  destruct (Nat.eqb (cidx a c) 0); [ring|].
  rewrite !dphi_scale by assumption. rewrite Hh.
  rewrite (ratio_cancel (gsc a) _ _ (nz_gsc a) Hf). ring.
Qed.
Theorem psi_m_scale (phi : cvar F) a c : tvd_face_ok phi a c ->
  psi_m F fsgn FLim m' (fun c => Kc * phi c) a c = Kc * psi_m F fsgn FLim m phi a c.
Proof.
  intros (H0 & Hm & Hp & Hf & Hh). unfold psi_m. unfold m' at 1. rewrite mN_scale. fold m'.
  destruct (Nat.eqb (cidx a c) (mN F m a)); [ring|].
  rewrite !dphi_scale by assumption. rewrite Hh.
  rewrite (ratio_cancel (gsc a) _ _ (nz_gsc a) Hf). ring.
Qed.
Theorem tvdflux_scale (u uup : fvar F) (phi : cvar F) a c : tvd_face_ok phi a c ->
  tvdflux F fsgn FLim m' (scaleU u) uup (fun c => Kc * phi c) a c
  = Lc / Tc * Kc * tvdflux F fsgn FLim m u uup phi a c.
Proof.
  intros Hok. unfold tvdflux. rewrite (psi_p_scale phi a c Hok), (psi_m_scale phi a c Hok).
  unfold umax, umin, scaleU. destruct (kltb F (uup a c) 0), (kltb F 0 (uup a c)); field; exact HT.
Qed.
(* the row of the TVD vector along one axis: field -> K field, u -> (L/T) u gives (K/T) * row *)
Theorem tvdrow_scale (u uup : fvar F) (phi : cvar F) a c : fac_ok m c -> mW F m a (cidx a c) <> 0 ->
  tvd_face_ok phi a c -> tvd_face_ok phi a (cdn a c) ->
  tvdrow F fsgn FLim m' (scaleU u) uup (fun c => Kc * phi c) a c = Kc * tvdrow F fsgn FLim m u uup phi a c / Tc.
Proof.
  intros Hfac HW Hc Hd. unfold tvdrow, divrow.
  rewrite (tvdflux_scale u uup phi a c Hc), (tvdflux_scale u uup phi a (cdn a c) Hd).
  prep a c. pose proof (nz_phi a). pose proof (nz_alpha a). field. repeat split; auto.
Qed.
End TvdScale.

(* boundary conditions: a -> L a (b unchanged) leaves a/h unchanged, so the boundary rows are unchanged and the
   ghost value scales with the field: c -> K c, phi -> K phi gives K * ghost *)
Definition scale_bcs (Kc : K) (bc : BCs F) : BCs F :=
  mkBCs F (fun a h c => Lc * bca F bc a h c) (bcb F bc) (fun a h c => Kc * bcc F bc a h c) (bper F bc).
Theorem aoh_scale (Kc : K) (bc : BCs F) a (hi : bool) g :
  fac_ok m (if hi then cdn a g else cup a g) -> mDX F m a (cidx a g) <> 0 ->
  aoh F m' (scale_bcs Kc bc) a hi g = aoh F m bc a hi g.
Proof.
  intros Hf HDX. unfold aoh, scale_bcs. cbn [bca]. unfold m'.
  rewrite mfac_scale, mDX_scale by assumption. rewrite (lam_phi Lc (mcls F m) a HL).
  pose proof (nz_phi a). field. repeat split; auto.
Qed.
Theorem ghost_scale (Kc : K) (bc : BCs F) (phi : cvar F) a (hi : bool) g :
  fac_ok m (if hi then cdn a g else cup a g) -> mDX F m a (cidx a g) <> 0 ->
  (if hi then aoh F m bc a hi g + bcb F bc a hi g / two <> 0 else - aoh F m bc a hi g + bcb F bc a hi g / two <> 0) ->
  ghost_value F m' (scale_bcs Kc bc) (fun c => Kc * phi c) a hi g = Kc * ghost_value F m bc phi a hi g.
Proof.
  intros Hf HDX Hd. unfold ghost_value. rewrite (aoh_scale Kc bc a hi g Hf HDX).
  change (bper F (scale_bcs Kc bc) a) with (bper F bc a). unfold m'. rewrite mN_scale. fold m'.
  change (bcb F (scale_bcs Kc bc)) with (bcb F bc).
  change (bcc F (scale_bcs Kc bc) a hi g) with (Kc * bcc F bc a hi g).
  destruct (bper F bc a); [destruct hi; reflexivity|].
  pose proof (two_neq_0 F L) as H2.
  destruct hi; field; split; auto.
  - apply (BoundaryThy.denom_two F L). exact Hd.
  - apply (BoundaryThy.denom_two' F L). exact Hd.
Qed.
End Coefs.

(* linearity of every term in its coefficient field *)
Theorem diff_linear_in_D (m : Mesh) (D1 D2 : fvar F) (k : K) a c :
  mW F m a (cidx a c) <> 0 -> mdxf F m a (cidx a c) <> 0 -> mdxf F m a (pred (cidx a c)) <> 0 ->
  diffAE F m (fun a c => k * D1 a c + D2 a c) a c = k * diffAE F m D1 a c + diffAE F m D2 a c /\
  diffAW F m (fun a c => k * D1 a c + D2 a c) a c = k * diffAW F m D1 a c + diffAW F m D2 a c.
Proof. intros HW H1 H0. unfold diffAE, diffAW. split; field; auto. Qed.
Theorem cen_linear_in_u (m : Mesh) (u1 u2 : fvar F) (k : K) a c :
  mW F m a (cidx a c) <> 0 -> mDX F m a (cidx a c) + mDX F m a (S (cidx a c)) <> 0 ->
  mDX F m a (cidx a c) + mDX F m a (pred (cidx a c)) <> 0 ->
  cenE F m (fun a c => k * u1 a c + u2 a c) a c = k * cenE F m u1 a c + cenE F m u2 a c /\
  cenW F m (fun a c => k * u1 a c + u2 a c) a c = k * cenW F m u1 a c + cenW F m u2 a c.
Proof. intros HW H1 H0. unfold cenE, cenW. split; field; auto. Qed.
(* upwind: additive at fixed upwind direction *)
Theorem upw_linear_in_u (m : Mesh) (u1 u2 uup : fvar F) (k : K) a c :
  mW F m a (cidx a c) <> 0 ->
  upwAE F m (fun a c => k * u1 a c + u2 a c) uup a c = k * upwAE F m u1 uup a c + upwAE F m u2 uup a c /\
  upwAW F m (fun a c => k * u1 a c + u2 a c) uup a c = k * upwAW F m u1 uup a c + upwAW F m u2 uup a c.
Proof.
  intros HW. pose proof (two_neq_0 F L). unfold upwAE, upwAW, half_if, umin, umax. split.
  - destruct (is_hi F m a c), (kltb F 0 (uup a c)); field; auto.
  - destruct (is_lo a c), (kltb F (uup a (cdn a c)) 0); field; auto.
Qed.
End Scaling.
