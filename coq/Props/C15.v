(* C15 — Assembly is pure and deterministic: builders never modify their inputs.
   In the functional model (Model/*.v) every builder is a function: equal inputs give equal results and a term value can be
   reused in any number of systems -- by construction.  What is checkable about the CODE is (i) its write effects,
   extracted statically from the source on every run (Gen/Effects.v), and (ii) observed effects / bit-identical repeats /
   aliasing, measured by the purity suite on the implementation. *)
From Coq Require Import String List Bool.
From PFV Require Import Effects EffectsThy.

Theorem C15_builders_pure : forall f params w rf, In (f, params, w, rf) effects_table ->
  w = expected_writes f /\ rf = expected_refresh f.
Proof. exact builders_pure. Qed.
Print Assumptions C15_builders_pure.
Theorem C15_public_api_covered : map (fun r => fst (fst (fst r))) effects_table = public_api.
Proof. exact api_covered. Qed.
Print Assumptions C15_public_api_covered.
(* instances in the words of the property *)
Example C15_solvePDE_writes_only_phi : expected_writes "solvePDE"%string = ("phi"%string :: nil).
Proof. reflexivity. Qed.
Example C15_solveExplicitPDE_writes_nothing : expected_writes "solveExplicitPDE"%string = nil.
Proof. reflexivity. Qed.
