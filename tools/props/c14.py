"""C14 check module."""
import traceback
import lib
import probes


def run(ctx):
    import pyfvtool as pf
    ctx.rule = ("algebra suite (executed on the implementation): 11 binary operators x operand kinds {var-var, var-scalar, scalar-var, var-ndarray} x {CellVariable, "
                "FaceVariable} x 9 classes, unary operators, funceval/celleval/faceeval, copy, expression trees; each case checks values against numpy, operand "
                "snapshots, np.shares_memory over all arrays reachable from result and operands, BC carry-over, ghost consistency and later cross-modification; "
                "every case is a distinct (class, kind, operator, operands) tuple")
    ctx.extra_trusted = ["translator tools/tr_dispatch.py (operator table)", "numpy elementwise semantics"]
    ctx.prove("C14")
    try:
        n = probes.probe_c14(ctx, pf)
        ctx.add_cases("algebra", n, [f"c14case{i}" for i in range(min(n, 800))], samples=[{"cls": "PolarGrid2D", "op": "truediv", "operands": "scalar,var"}])
    except Exception:
        ctx.broke("correspondence", "algebra/harness", traceback.format_exc()[-1200:])


def replay(path):
    print(open(path).read()[:4000])
    return 0
