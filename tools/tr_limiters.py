#!/usr/bin/env python3
"""Fail-closed translator: utilities.fluxLimiter and advection._fsign  ->  coq/Gen/Limiters.v

Every run of a check that depends on the limiters regenerates the Coq file from the current /repo source, so the theorems
in Theory/LimiterThy.v are re-checked against what the code says now.

Method: SYMBOLIC TRACING.  The two source files are loaded (as plain modules, outside the package) and the functions the
library itself would call -- `fluxLimiter(name, eps)` and the closure it returns, `_fsign(phi, eps1)` -- are executed on
symbolic operands.  Every arithmetic operator, comparison and numpy ufunc applied to a symbolic operand is recorded as a node
of a Coq expression over the abstract field; denominators are collected in evaluation order.  The result is the expression
the code computes for array operands, however the source is organised (if-chain, table of closures, helper functions ...).
Anything that would make the trace depend on the DATA raises TranslateError (fail closed):
   truth value of a symbolic comparison (if/while/and/or on data), conversion to float/int/array, any numpy function or
   ufunc outside {add subtract multiply true_divide negative absolute sign maximum minimum power(.,2) greater greater_equal
   less less_equal equal where}, ufunc keyword arguments (out=, where=), powers other than 2.
Limiter names: the string constants occurring in the source of fluxLimiter for which the function does not print its
"not available" warning; the fall-back limiter is traced with a name that is not in the source.
Trusted: CPython's operator dispatch and numpy's __array_ufunc__/__array_function__ protocols route every operation on a
symbolic operand to the recorder (an operation that bypassed them could not produce a numeric result from a symbol anyway).
"""
import ast, sys, os, io, inspect, contextlib, importlib.util
from fractions import Fraction


class TranslateError(Exception):
    pass


def lit(v):
    if isinstance(v, bool) or not isinstance(v, (int, float)):
        raise TranslateError(f"unsupported literal {v!r}")
    if isinstance(v, float) and (v != v or v in (float("inf"), float("-inf"))):
        raise TranslateError(f"non-finite literal {v!r}")
    fr = Fraction(v)   # exact value of the float
    n, d = fr.numerator, fr.denominator
    if d == 1:
        return f"(kofZ F ({n})%Z)"
    return f"(kofQ F ({n})%Z ({d})%positive)"


class Tracer:
    def __init__(self):
        self.dens = []


def _np():
    import numpy
    return numpy


class Sym:
    """a field-valued (is_bool = False) or boolean-valued (is_bool = True) symbolic expression"""
    __array_priority__ = 1e6
    __hash__ = None

    def __init__(self, tr, txt, is_bool=False):
        self.tr, self.txt, self.is_bool = tr, txt, is_bool

    # -- coercions
    def num(self):
        return f"(b2k F {self.txt})" if self.is_bool else self.txt

    def _lift(self, o):
        if isinstance(o, Sym):
            if o.tr is not self.tr:
                raise TranslateError("operands of different traces")
            return o.num()
        np = _np()
        if isinstance(o, np.generic):
            o = o.item()
        if isinstance(o, np.ndarray):
            if o.ndim == 0:
                o = o.item()
            else:
                raise TranslateError("array constant in a traced expression")
        return lit(o)

    def _bin(self, op, a, b):
        return Sym(self.tr, f"({op} F {a} {b})")

    # -- arithmetic
    def __add__(self, o): return self._bin("kadd", self.num(), self._lift(o))
    def __radd__(self, o): return self._bin("kadd", self._lift(o), self.num())
    def __sub__(self, o): return self._bin("ksub", self.num(), self._lift(o))
    def __rsub__(self, o): return self._bin("ksub", self._lift(o), self.num())
    def __mul__(self, o): return self._bin("kmul", self.num(), self._lift(o))
    def __rmul__(self, o): return self._bin("kmul", self._lift(o), self.num())

    def __truediv__(self, o):
        a, b = self.num(), self._lift(o)
        self.tr.dens.append(b)
        return self._bin("kdiv", a, b)

    def __rtruediv__(self, o):
        a, b = self._lift(o), self.num()
        self.tr.dens.append(b)
        return self._bin("kdiv", a, b)

    def __neg__(self): return Sym(self.tr, f"(kopp F {self.num()})")
    def __pos__(self): return self
    def __abs__(self): return Sym(self.tr, f"(kabs F {self.num()})")

    def __pow__(self, o, mod=None):
        if mod is not None or isinstance(o, Sym) or isinstance(o, bool) or o not in (2, 2.0):
            raise TranslateError("only **2 supported")
        a = self.num()
        return Sym(self.tr, f"(kmul F {a} {a})")

    def __rpow__(self, o): raise TranslateError("symbolic exponent")
    def __floordiv__(self, o): raise TranslateError("floor division")
    def __mod__(self, o): raise TranslateError("modulo")

    # -- comparisons (0/1 factors when used arithmetically)
    def _cmp(self, op, a, b): return Sym(self.tr, f"({op} F {a} {b})", True)
    def __gt__(self, o): return self._cmp("kltb", self._lift(o), self.num())
    def __lt__(self, o): return self._cmp("kltb", self.num(), self._lift(o))
    def __ge__(self, o): return self._cmp("kleb", self._lift(o), self.num())
    def __le__(self, o): return self._cmp("kleb", self.num(), self._lift(o))
    def __eq__(self, o): return self._cmp("keqb", self.num(), self._lift(o))
    def __ne__(self, o): raise TranslateError("!= on symbolic data")

    # -- everything that would let control flow or the numeric stack see the data
    def __bool__(self): raise TranslateError("truth value of symbolic data (data-dependent control flow)")
    def __float__(self): raise TranslateError("float() of symbolic data")
    def __int__(self): raise TranslateError("int() of symbolic data")
    def __index__(self): raise TranslateError("symbolic index")
    def __len__(self): raise TranslateError("len() of symbolic data")
    def __iter__(self): raise TranslateError("iteration over symbolic data")
    def __getitem__(self, k): raise TranslateError("indexing symbolic data")
    def __array__(self, *a, **k): raise TranslateError("conversion of symbolic data to an array")
    def __and__(self, o): raise TranslateError("& on symbolic data")
    def __or__(self, o): raise TranslateError("| on symbolic data")
    def __invert__(self): raise TranslateError("~ on symbolic data")

    # -- numpy protocols
    def __array_ufunc__(self, ufunc, method, *inputs, **kwargs):
        np = _np()
        if method != "__call__" or kwargs:
            raise TranslateError(f"ufunc {ufunc.__name__} with method {method} / keyword arguments")
        me = next(x for x in inputs if isinstance(x, Sym))
        def S(x):
            return x if isinstance(x, Sym) else Sym(me.tr, me._lift(x))
        un = {np.absolute: "__abs__", np.negative: "__neg__", np.positive: "__pos__"}
        if ufunc in un and len(inputs) == 1:
            return getattr(S(inputs[0]), un[ufunc])()
        if ufunc is np.sign and len(inputs) == 1:
            return Sym(me.tr, f"(ksign F {S(inputs[0]).num()})")
        if len(inputs) == 2:
            a, b = S(inputs[0]), S(inputs[1])
            if ufunc is np.maximum: return Sym(me.tr, f"(kmax F {a.num()} {b.num()})")
            if ufunc is np.minimum: return Sym(me.tr, f"(kmin F {a.num()} {b.num()})")
            if ufunc is np.add: return a + b
            if ufunc is np.subtract: return a - b
            if ufunc is np.multiply: return a * b
            if ufunc in (np.true_divide, np.divide): return a / b
            if ufunc is np.power:
                if isinstance(inputs[1], Sym):
                    raise TranslateError("symbolic exponent")
                return a ** inputs[1]
            if ufunc is np.greater: return a > b
            if ufunc is np.less: return a < b
            if ufunc is np.greater_equal: return a >= b
            if ufunc is np.less_equal: return a <= b
            if ufunc is np.equal: return a == b
        raise TranslateError(f"unsupported ufunc {ufunc.__name__}")

    def __array_function__(self, func, types, args, kwargs):
        np = _np()
        if func is np.where and len(args) == 3 and not kwargs:
            c, a, b = args
            if not (isinstance(c, Sym) and c.is_bool):
                raise TranslateError("np.where with a non-symbolic condition")
            A = a.num() if isinstance(a, Sym) else self._lift(a)
            B = b.num() if isinstance(b, Sym) else self._lift(b)
            return Sym(self.tr, f"(if {c.txt} then {A} else {B})")
        if func in (np.abs, np.absolute) and len(args) == 1 and not kwargs:
            return abs(args[0])
        raise TranslateError(f"unsupported numpy function {getattr(func, '__name__', func)}")


def load_module(path, name):
    spec = importlib.util.spec_from_file_location(name, path)
    mod = importlib.util.module_from_spec(spec)
    try:
        spec.loader.exec_module(mod)
    except Exception as ex:
        raise TranslateError(f"cannot load {path}: {type(ex).__name__}: {ex}")
    return mod


def function_source_strings(path, fname):
    tree = ast.parse(open(path).read())
    fds = [n for n in tree.body if isinstance(n, ast.FunctionDef) and n.name == fname]
    if len(fds) != 1:
        raise TranslateError(f"{fname} not found")
    fd = fds[0]
    doc = ast.get_docstring(fd, clean=False)
    out = []
    for n in ast.walk(fd):
        if isinstance(n, ast.Constant) and isinstance(n.value, str) and n.value != doc and n.value not in out:
            out.append((n.lineno, n.col_offset, n.value))
    out.sort()
    seen, res = set(), []
    for _, _, s in out:
        if s not in seen:
            seen.add(s); res.append(s)
    return res


def trace_limiter(fluxLimiter, name):
    """returns (printed-anything?, body text, denominators)"""
    tr = Tracer()
    buf = io.StringIO()
    try:
        with contextlib.redirect_stdout(buf):
            FL = fluxLimiter(name, eps=Sym(tr, "eps"))
            if not callable(FL):
                raise TranslateError("fluxLimiter did not return a callable")
            res = FL(Sym(tr, "r"))
    except TranslateError:
        raise
    except Exception as ex:
        raise TranslateError(f"tracing fluxLimiter({name!r}) raised {type(ex).__name__}: {ex}")
    if not isinstance(res, Sym):
        raise TranslateError(f"fluxLimiter({name!r})(r) does not depend on r symbolically: {res!r}")
    return bool(buf.getvalue().strip()), res.num(), list(tr.dens)


def translate(repo):
    util_path = os.path.join(repo, "src/pyfvtool/utilities.py")
    adv_path = os.path.join(repo, "src/pyfvtool/advection.py")
    # utilities.py imports nothing from the package that the limiter needs; advection.py uses package-relative imports, so
    # _fsign is taken from its source text alone (it must be a self-contained function of numpy only)
    util = load_module(util_path, "_pfv_utilities_traced")
    if not hasattr(util, "fluxLimiter"):
        raise TranslateError("fluxLimiter not found")
    sig = inspect.signature(util.fluxLimiter)
    if list(sig.parameters) != ["flName", "eps"] or not isinstance(sig.parameters["eps"].default, (int, float)):
        raise TranslateError("fluxLimiter signature changed")
    eps_default = sig.parameters["eps"].default
    unknown = "\x00no such limiter\x00"
    warned, fb_body, fb_dens = trace_limiter(util.fluxLimiter, unknown)
    if not warned:
        raise TranslateError("fluxLimiter no longer warns about an unknown name")
    branches = []
    for s in function_source_strings(util_path, "fluxLimiter"):
        if not s.isidentifier():
            continue
        warned, body, dens = trace_limiter(util.fluxLimiter, s)
        if not warned:
            branches.append((s, (body, dens)))
    if not branches:
        raise TranslateError("no limiter names found")
    fallback = (fb_body, fb_dens)
    # _fsign
    tree = ast.parse(open(adv_path).read())
    fs = [n for n in tree.body if isinstance(n, ast.FunctionDef) and n.name == "_fsign"]
    if len(fs) != 1:
        raise TranslateError("_fsign not found")
    import numpy
    ns = {"np": numpy, "numpy": numpy}
    try:
        exec(compile(ast.Module(body=[fs[0]], type_ignores=[]), adv_path, "exec"), ns)
    except Exception as ex:
        raise TranslateError(f"cannot load _fsign: {ex}")
    fsig = inspect.signature(ns["_fsign"])
    if list(fsig.parameters) != ["phi_in", "eps1"] or not isinstance(fsig.parameters["eps1"].default, (int, float)):
        raise TranslateError("_fsign signature changed")
    eps1_default = fsig.parameters["eps1"].default
    trf = Tracer()
    try:
        r = ns["_fsign"](Sym(trf, "x"), Sym(trf, "eps1"))
    except TranslateError:
        raise
    except Exception as ex:
        raise TranslateError(f"tracing _fsign raised {type(ex).__name__}: {ex}")
    if not isinstance(r, Sym):
        raise TranslateError("_fsign does not depend on its argument symbolically")
    if trf.dens:
        raise TranslateError("_fsign must not divide")
    fsign_body = r.num()

    out = []
    w = out.append
    w("(* GENERATED by tools/tr_limiters.py from src/pyfvtool/utilities.py (fluxLimiter) and")
    w("   src/pyfvtool/advection.py (_fsign).  DO NOT EDIT: regenerated on every check run. *)")
    w("From Coq Require Import ZArith String List.")
    w("From PFV Require Import OField KOps.")
    w("Import ListNotations.")
    w("Open Scope string_scope.")
    w("Section GenLimiters.")
    w("Variable F : FieldOps.")
    for name, (body_, dens) in branches + [("fallback", fallback)]:
        cn = "FL_" + name
        w(f"Definition {cn} (eps r : F) : F := {body_}.")
        for i, d in enumerate(dens):
            w(f"Definition {cn}_den{i} (eps r : F) : F := {d}.")
        w(f"Definition {cn}_dens (eps r : F) : list F := [{'; '.join(dens)}].")
    w("Definition FL_names : list string := [" + "; ".join('"%s"' % n for n, _ in branches) + "].")
    disp = "FL_fallback eps r"
    for name, _ in reversed(branches):
        disp = f'if String.eqb name "{name}" then FL_{name} eps r else\n    {disp}'
    w(f"Definition FL_dispatch (name : string) (eps r : F) : F :=\n    {disp}.")
    disp = "FL_fallback_dens eps r"
    for name, _ in reversed(branches):
        disp = f'if String.eqb name "{name}" then FL_{name}_dens eps r else\n    {disp}'
    w(f"Definition FL_dens_dispatch (name : string) (eps r : F) : list F :=\n    {disp}.")
    w("Definition FL_table : list (string * (F -> F -> F) * (F -> F -> list F)) := [")
    w(";\n".join(f'  ("{n}", FL_{n}, FL_{n}_dens)' for n, _ in branches))
    w("].")
    w(f"Definition fsign (eps1 x : F) : F := {fsign_body}.")
    w(f"Definition eps_default : F := {lit(eps_default)}.")
    w(f"Definition eps1_default : F := {lit(eps1_default)}.")
    w("End GenLimiters.")
    return "\n".join(out) + "\n", [n for n, _ in branches]


if __name__ == "__main__":
    repo = sys.argv[1] if len(sys.argv) > 1 else "/repo"
    dst = sys.argv[2] if len(sys.argv) > 2 else None
    try:
        txt, names = translate(repo)
    except TranslateError as e:
        print("TRANSLATE-ERROR:", e)
        sys.exit(2)
    if dst:
        old = open(dst).read() if os.path.exists(dst) else None
        if old != txt:
            open(dst, "w").write(txt)
    else:
        sys.stdout.write(txt)
