(* C02: the discrete operators reproduce the continuous ones EXACTLY on polynomial families that separate every metric factor
   (uniform spacing h around the cell, cell centre xi): identities of rational functions, generic field.
   Convergence under refinement (stability + consistency on all grids) is NOT proved; see DESIGN.md. *)
From Coq Require Import Arith List Bool Field Lia.
From PFV Require Import OField KOps Grid Ops StencilThy MeasureThy.

Section Exactness.
Variable F : FieldOps.
Variable L : FieldLaws F.
Add Field FFex : (FL_field F L).
Local Notation K := (K F).
Local Notation "0" := (k0 F).
Local Notation "1" := (k1 F).
Local Infix "+" := (kadd F).
Local Infix "*" := (kmul F).
Local Infix "-" := (ksub F).
Local Infix "/" := (kdiv F).
Local Notation two := (kadd F (k1 F) (k1 F)).
Local Notation three := (kadd F (k1 F) two).
Local Notation four := (kmul F two two).
Local Notation six := (kmul F two three).
Local Notation Mesh := (Mesh F).

(* the diffusion stencil along one axis in flux form *)
Lemma diffusion_axis_form (m : Mesh) (D : fvar F) (x : cvar F) a c :
  mW F m a (cidx a c) <> 0 -> mdxf F m a (cidx a c) <> 0 -> mdxf F m a (pred (cidx a c)) <> 0 ->
  apply_axis F (diffAW F m D) (diffAP F m D) (diffAE F m D) x a c
  = mfac F m a c * mfac F m a c / mW F m a (cidx a c)
    * (mA F m a (cidx a c) * D a c * (x (cup a c) - x c) / mdxf F m a (cidx a c)
       - mA F m a (pred (cidx a c)) * D a (cdn a c) * (x c - x (cdn a c)) / mdxf F m a (pred (cidx a c))).
Proof. intros HW H1 H0. unfold apply_axis, diffAP, diffAE, diffAW. field. auto. Qed.

Section Cell.
Variable m : Mesh.
Variable a : axis.
Variable c : cell.
Variable (h xi d al be ga : K).
Hypothesis Hh : h <> 0.
Hypothesis Hdx : mdxf F m a (cidx a c) = h /\ mdxf F m a (pred (cidx a c)) = h.
Variable D : fvar F.
Hypothesis HD : D a c = d /\ D a (cdn a c) = d.
Variable x : cvar F.
Definition quad (t : K) : K := al + be * t + ga * t * t.
Hypothesis Hx : x (cdn a c) = quad (xi - h) /\ x c = quad xi /\ x (cup a c) = quad (xi + h).

(* Cartesian axis (A = 1, W = h, fac = 1): d * (alpha + beta x + gamma x^2)'' = 2 gamma d, exactly *)
Theorem exact_cartesian :
  mfac F m a c = 1 -> mA F m a (cidx a c) = 1 -> mA F m a (pred (cidx a c)) = 1 -> mW F m a (cidx a c) = h ->
  apply_axis F (diffAW F m D) (diffAP F m D) (diffAE F m D) x a c = two * ga * d.
Proof.
  intros Hf HA1 HA0 HW. destruct Hdx as [E1 E0]. destruct HD as [D1 D0]. destruct Hx as (X0 & X1 & X2).
  rewrite diffusion_axis_form by (rewrite ?HW, ?E1, ?E0; exact Hh).
  rewrite Hf, HA1, HA0, HW, E1, E0, D1, D0, X0, X1, X2. unfold quad. field. exact Hh.
Qed.
(* cylindrical / polar radial axis (A = r_f, W = r_p h): (1/r)(r d phi_r)_r of alpha + gamma r^2 is 4 gamma d, exactly,
   also for the first cell at the axis (xi = h/2, r_w = 0) *)
Theorem exact_cylindrical_radial : be = 0 -> xi <> 0 ->
  mfac F m a c = 1 -> mA F m a (cidx a c) = xi + h / two -> mA F m a (pred (cidx a c)) = xi - h / two -> mW F m a (cidx a c) = xi * h ->
  apply_axis F (diffAW F m D) (diffAP F m D) (diffAE F m D) x a c = four * ga * d.
Proof.
  intros Hb Hxi Hf HA1 HA0 HW. destruct Hdx as [E1 E0]. destruct HD as [D1 D0]. destruct Hx as (X0 & X1 & X2).
  pose proof (two_neq_0 F L) as H2.
  rewrite diffusion_axis_form by (rewrite ?HW, ?E1, ?E0; try exact Hh; apply (mul_neq_0 F L); assumption).
  rewrite Hf, HA1, HA0, HW, E1, E0, D1, D0, X0, X1, X2. unfold quad. rewrite Hb. field. auto.
Qed.
(* SphericalGrid1D (A = r_f^2, W = (r_e^3 - r_w^3)/3): (1/r^2)(r^2 d phi_r)_r of alpha + gamma r^2 is 6 gamma d, exactly *)
Theorem exact_spherical1D_radial : be = 0 ->
  let re := xi + h / two in let rw := xi - h / two in
  re * re * re - rw * rw * rw <> 0 ->
  mfac F m a c = 1 -> mA F m a (cidx a c) = re * re -> mA F m a (pred (cidx a c)) = rw * rw ->
  mW F m a (cidx a c) = (re * re * re - rw * rw * rw) / three ->
  apply_axis F (diffAW F m D) (diffAP F m D) (diffAE F m D) x a c = six * ga * d.
Proof.
  intros Hb re rw Hvol Hf HA1 HA0 HW. destruct Hdx as [E1 E0]. destruct HD as [D1 D0]. destruct Hx as (X0 & X1 & X2).
  pose proof (two_neq_0 F L) as H2. pose proof (FL_three F L) as H3.
  assert (HWne : mW F m a (cidx a c) <> 0) by (rewrite HW; apply (div_neq_0 F L); assumption).
  rewrite diffusion_axis_form by (rewrite ?E1, ?E0; assumption).
  rewrite Hf, HA1, HA0, HW, E1, E0, D1, D0, X0, X1, X2.
  assert (EN : re * re * d * (quad (xi + h) - quad xi) / h - rw * rw * d * (quad xi - quad (xi - h)) / h
               = two * ga * d * (re * re * re - rw * rw * rw)).
  { unfold quad, re, rw. rewrite Hb. field. auto. }
  rewrite EN. set (V := re * re * re - rw * rw * rw) in *. field. auto.
Qed.
(* SphericalGrid3D radial block uses the midpoint volume W = r_p^2 h: second order, with the exact remainder *)
Theorem spherical3D_radial_remainder : be = 0 -> xi <> 0 ->
  let re := xi + h / two in let rw := xi - h / two in
  mfac F m a c = 1 -> mA F m a (cidx a c) = re * re -> mA F m a (pred (cidx a c)) = rw * rw ->
  mW F m a (cidx a c) = xi * xi * h ->
  apply_axis F (diffAW F m D) (diffAP F m D) (diffAE F m D) x a c = six * ga * d + ga * d * h * h / (two * xi * xi).
Proof.
  intros Hb Hxi re rw Hf HA1 HA0 HW. destruct Hdx as [E1 E0]. destruct HD as [D1 D0]. destruct Hx as (X0 & X1 & X2).
  pose proof (two_neq_0 F L) as H2.
  assert (HWne : mW F m a (cidx a c) <> 0) by (rewrite HW; repeat apply (mul_neq_0 F L); assumption).
  rewrite diffusion_axis_form by (rewrite ?E1, ?E0; assumption).
  rewrite Hf, HA1, HA0, HW, E1, E0, D1, D0, X0, X1, X2. unfold quad, re, rw in *. rewrite Hb. field. repeat split; auto.
Qed.
(* angular axis of polar / cylindrical grids (A = 1, W = h, fac = 1/r): (d/r^2) phi_thetatheta, exactly *)
Theorem exact_angular (r : K) : r <> 0 ->
  mfac F m a c = 1 / r -> mA F m a (cidx a c) = 1 -> mA F m a (pred (cidx a c)) = 1 -> mW F m a (cidx a c) = h ->
  apply_axis F (diffAW F m D) (diffAP F m D) (diffAE F m D) x a c = two * ga * d / (r * r).
Proof.
  intros Hr Hf HA1 HA0 HW. destruct Hdx as [E1 E0]. destruct HD as [D1 D0]. destruct Hx as (X0 & X1 & X2).
  rewrite diffusion_axis_form by (rewrite ?HW, ?E1, ?E0; exact Hh).
  rewrite Hf, HA1, HA0, HW, E1, E0, D1, D0, X0, X1, X2. unfold quad. field. auto.
Qed.
End Cell.

(* central advection with constant u on a uniform Cartesian axis is exact on linear fields: (u phi)' = u beta *)
Theorem exact_central_cartesian (m : Mesh) (u : fvar F) (x : cvar F) a c (h xi uc al be : K) :
  h <> 0 -> two <> 0 ->
  mfac F m a c = 1 -> mA F m a (cidx a c) = 1 -> mA F m a (pred (cidx a c)) = 1 -> mW F m a (cidx a c) = h ->
  mDX F m a (cidx a c) = h -> mDX F m a (S (cidx a c)) = h -> mDX F m a (pred (cidx a c)) = h ->
  u a c = uc -> u a (cdn a c) = uc ->
  x (cdn a c) = al + be * (xi - h) -> x c = al + be * xi -> x (cup a c) = al + be * (xi + h) ->
  apply_axis F (cenAW F m u) (cenAP F m u) (cenAE F m u) x a c = uc * be.
Proof.
  intros Hh H2 Hf HA1 HA0 HW E1 E2 E0 U1 U0 X0 X1 X2.
  unfold apply_axis, cenAP, cenAE, cenAW, cenE, cenW. rewrite Hf, HA1, HA0, HW, E1, E2, E0, U1, U0, X0, X1, X2.
  field. repeat split; auto.
  intro E. apply H2. 
  assert (Eq : h + h = two * h) by ring. rewrite Eq in E.
  transitivity (two * h / h); [field; exact Hh|]. rewrite E. field. exact Hh.
Qed.
End Exactness.
