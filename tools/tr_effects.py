#!/usr/bin/env python3
"""Fail-closed static effect extraction  ->  coq/Gen/Effects.v

For every public builder / solver of pyfvtool: the set of parameters that the function body may write to,
directly (assignment / augmented assignment / in-place call on an attribute-or-subscript chain rooted at the
parameter, or at a local name that is a plain view of it) or through a call to another analysed function
(fixpoint over the call graph).  A local name is a *view* of parameter p if it is assigned from an expression that
is only attribute accesses, subscripts and numpy view-returning methods on p or on another view of p.
Anything the analysis does not understand in a write position (starred targets, global/nonlocal, exec, setattr on
a parameter) is a TranslateError."""
import ast, sys, os

MODULES = ["diffusion", "advection", "calculus", "averaging", "source", "boundary", "pdesolver", "cell", "face", "utilities"]
PUBLIC = ["diffusionTerm", "convectionTerm", "convectionUpwindTerm", "convectionTVDupwindRHSTerm", "divergenceTerm",
          "gradientTerm", "gradientTermFixedBC", "linearMean", "arithmeticMean", "geometricMean", "harmonicMean", "upwindMean",
          "linearSourceTerm", "constantSourceTerm", "transientTerm", "boundaryConditionsTerm", "cellValuesWithBoundaries",
          "solvePDE", "solveMatrixPDE", "solveExplicitPDE", "cellLocations", "faceLocations", "funceval", "celleval", "faceeval",
          "fluxLimiter"]
VIEW_METHODS = {"ravel", "reshape", "view", "transpose", "squeeze", "T", "flat"}
INPLACE_METHODS = {"fill", "sort", "itemset", "put", "resize", "setfield", "partition", "update_value",
                   "fixedValue", "fixedGradient", "newtonCooling", "defaultNoFlux"}
REFRESH_METHODS = {"apply_BCs"}   # re-derives ghost cells / cached term / flags from the variable's own data
INPLACE_NP = {"copyto", "put", "place", "putmask", "fill_diagonal"}


class TranslateError(Exception):
    pass


def root_name(e):
    """Name at the root of an attribute/subscript/view-method chain, or None"""
    while True:
        if isinstance(e, ast.Name):
            return e.id
        if isinstance(e, (ast.Attribute, ast.Subscript)):
            e = e.value
        elif isinstance(e, ast.Call) and isinstance(e.func, ast.Attribute) and e.func.attr in VIEW_METHODS:
            e = e.func.value
        elif isinstance(e, ast.Call) and isinstance(e.func, ast.Attribute) and isinstance(e.func.value, ast.Name) \
                and e.func.value.id == "np" and e.func.attr in ("asarray", "ravel", "reshape", "squeeze", "transpose", "atleast_1d") and e.args:
            e = e.args[0]
        else:
            return None


def analyse_function(fd, summaries):
    params = [a.arg for a in fd.args.args] + ([fd.args.vararg.arg] if fd.args.vararg else [])
    views = {p: p for p in params}        # local name -> parameter it is a view of
    written = set()
    refreshed = set()
    calls = []
    for node in ast.walk(fd):
        # `nonlocal x` in a nested helper re-binds a local NAME of the enclosing function (not an object): nested bodies are
        # analysed together with their parent over one view map, so it needs no special treatment.  `global` is refused.
        if isinstance(node, ast.Global):
            raise TranslateError(f"{fd.name}: global")
    # pass 1: view aliases (iterate to a fixpoint; assignments in program order are over-approximated)
    changed = True
    while changed:
        changed = False
        for node in ast.walk(fd):
            if isinstance(node, ast.Assign) and len(node.targets) == 1 and isinstance(node.targets[0], ast.Name):
                r = root_name(node.value)
                if r in views and not isinstance(node.value, ast.Name) or (isinstance(node.value, ast.Name) and r in views):
                    t = node.targets[0].id
                    if t not in views:
                        views[t] = views[r]; changed = True
            if isinstance(node, ast.Assign) and len(node.targets) == 1 and isinstance(node.targets[0], ast.Tuple) \
                    and isinstance(node.value, ast.Tuple) and len(node.value.elts) == len(node.targets[0].elts):
                for t, v in zip(node.targets[0].elts, node.value.elts):
                    r = root_name(v)
                    if isinstance(t, ast.Name) and r in views and t.id not in views:
                        views[t.id] = views[r]; changed = True
    # a name re-bound to a fresh object (arithmetic, constructor, np.copy ...) anywhere is still treated as a view: conservative,
    # except for the one idiom of the code base: `name = np.copy(...)` / `np.zeros(...)` BEFORE any view assignment to it
    fresh_first = set()
    for st in fd.body:
        for node in ast.walk(st):
            if isinstance(node, ast.Assign) and len(node.targets) == 1 and isinstance(node.targets[0], ast.Name):
                t = node.targets[0].id
                if t in views and views[t] != t or t in params:
                    continue
    # pass 2: writes
    def mark(e, what):
        r = root_name(e)
        if r is None:
            return
        if r in views:
            written.add(views[r])
    for node in ast.walk(fd):
        if isinstance(node, (ast.Assign, ast.AugAssign, ast.AnnAssign)):
            targets = node.targets if isinstance(node, ast.Assign) else [node.target]
            for t in targets:
                ts = t.elts if isinstance(t, (ast.Tuple, ast.List)) else [t]
                for x in ts:
                    if isinstance(x, ast.Starred):
                        raise TranslateError(f"{fd.name}: starred assignment target")
                    if isinstance(x, (ast.Attribute, ast.Subscript)):
                        mark(x, "assign")
                    elif isinstance(x, ast.Name) and isinstance(node, ast.AugAssign) and x.id in views:
                        # `name += ...` on a view writes in place
                        written.add(views[x.id])
        elif isinstance(node, ast.Call):
            f = node.func
            if isinstance(f, ast.Attribute) and f.attr in INPLACE_METHODS:
                mark(f.value, "method")
            elif isinstance(f, ast.Attribute) and f.attr in REFRESH_METHODS:
                r = root_name(f.value)
                if r in views:
                    refreshed.add(views[r])
            elif isinstance(f, ast.Attribute) and isinstance(f.value, ast.Name) and f.value.id == "np" and f.attr in INPLACE_NP and node.args:
                mark(node.args[0], "np-inplace")
            elif isinstance(f, ast.Name) and f.id in ("setattr", "exec", "eval"):
                raise TranslateError(f"{fd.name}: {f.id}()")
            elif isinstance(f, ast.Name):
                calls.append((f.id, node.args))
            # keyword out=
            for kw in node.keywords:
                if kw.arg == "out":
                    mark(kw.value, "out=")
    return params, views, written, calls, refreshed


def translate(repo):
    funcs = {}       # key -> FunctionDef ; module-level functions under their name, nested helpers under "parent.<name>"
    byname = {}      # plain name -> [keys]   (a call by name may reach any of them: over-approximation)
    for m in MODULES:
        tree = ast.parse(open(os.path.join(repo, "src/pyfvtool", m + ".py")).read())
        for n in tree.body:
            if isinstance(n, ast.FunctionDef):
                funcs[n.name] = n
                byname.setdefault(n.name, []).append(n.name)
                for sub in ast.walk(n):
                    if isinstance(sub, ast.FunctionDef) and sub is not n:
                        key = f"{n.name}.<{sub.name}>@{sub.lineno}"
                        funcs[key] = sub
                        byname.setdefault(sub.name, []).append(key)
    info = {name: analyse_function(fd, None) for name, fd in funcs.items()}
    writes = {name: set(info[name][2]) for name in funcs}
    changed = True
    while changed:
        changed = False
        for name, (params, views, _, calls, _r) in info.items():
            for callee_name, args in calls:
                for callee in byname.get(callee_name, []):
                    cparams = info[callee][0]
                    cvar = funcs[callee].args.vararg.arg if funcs[callee].args.vararg else None
                    for i, a in enumerate(args):
                        if isinstance(a, ast.Starred):
                            r = root_name(a.value)
                            tgt = [p for p in cparams]
                        else:
                            r = root_name(a)
                            tgt = [cparams[i]] if i < len(cparams) else ([cvar] if cvar else [])
                        if r in views and any(t in writes[callee] for t in tgt):
                            if views[r] not in writes[name]:
                                writes[name].add(views[r]); changed = True
    for p in PUBLIC:
        if p not in funcs:
            raise TranslateError(f"public function {p} not found")
    o = ["(* GENERATED by tools/tr_effects.py (static write-effect extraction over src/pyfvtool). DO NOT EDIT. *)",
         "From Coq Require Import String List.", "Import ListNotations.", "Open Scope string_scope.",
         "(* function name, its parameters, the parameters its body (transitively) may write, the parameters it may refresh (apply_BCs) *)",
         "Definition effects_table : list (string * list string * list string * list string) := ["]
    rows = []
    for p in PUBLIC:
        params = info[p][0]
        rows.append(f'  ("{p}", [{"; ".join(chr(34) + x + chr(34) for x in params)}], [{"; ".join(chr(34) + x + chr(34) for x in sorted(writes[p]))}], [{"; ".join(chr(34) + x + chr(34) for x in sorted(info[p][4] - writes[p]))}])')
    o.append(";\n".join(rows))
    o.append("].")
    o.append("Definition analysed_functions : nat := %d." % len(funcs))
    return "\n".join(o) + "\n"


if __name__ == "__main__":
    repo = sys.argv[1] if len(sys.argv) > 1 else "/repo"
    dst = sys.argv[2] if len(sys.argv) > 2 else None
    try:
        txt = translate(repo)
    except TranslateError as e:
        print("TRANSLATE-ERROR:", e)
        sys.exit(2)
    if dst:
        old = open(dst).read() if os.path.exists(dst) else None
        if old != txt:
            open(dst, "w").write(txt)
    else:
        sys.stdout.write(txt)
