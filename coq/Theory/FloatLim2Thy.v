(* Binary64 finiteness of HCUS and HQUICK: r >= 0: the denominator r + c is at least c; r < 0: the numerator r + |r| is exactly zero and the
   denominator is a non-zero float (r + c does not round to zero unless it is zero: gradual underflow; at r = -c the guard eps takes over). *)
From Coq Require Import ZArith Reals Lra Lia Bool Floats String List.
From Flocq Require Import Core.Core IEEE754.BinarySingleNaN.
From Flocq.Prop Require Import Plus_error.
From PFV Require Import OField KOps F64Ops FloatThy Limiters LimiterThy FloatLimThy.
Module FP := Flocq.IEEE754.PrimFloat.
Local Open Scope R_scope.
Local Instance prec_pos2 : Prec_gt_0 prec := eq_refl.
Local Instance fexp_valid2 : Valid_exp fexp := FLT_exp_valid emin prec.

Lemma eqb_FR a b : ffin a -> ffin b -> PrimFloat.eqb a b = Req_bool (FR a) (FR b).
Proof. intros Fa Fb. rewrite FP.eqb_equiv. apply Beqb_correct; assumption. Qed.

Lemma add_exact_zero k1 k2 a b : fin k1 a -> fin k2 b -> okexp (Z.max k1 k2 + 1) = true -> FR a + FR b = 0 ->
  fin (Z.max k1 k2 + 1) (PrimFloat.add a b) /\ FR (PrimFloat.add a b) = 0.
Proof. intros Ha Hb Hk E. destruct (fin_add k1 k2 a b Ha Hb Hk) as [F R]. split; [exact F|]. rewrite R, E. apply rnd_0'. Qed.

Lemma add_zero_r k1 k2 a b : fin k1 a -> fin k2 b -> okexp (Z.max k1 k2 + 1) = true -> FR b = 0 ->
  fin (Z.max k1 k2 + 1) (PrimFloat.add a b) /\ FR (PrimFloat.add a b) = FR a.
Proof. intros Ha Hb Hk E. destruct (fin_add k1 k2 a b Ha Hb Hk) as [F R]. split; [exact F|]. rewrite R, E, Rplus_0_r. apply rnd_FR. Qed.

Lemma add_zero_l k1 k2 a b : fin k1 a -> fin k2 b -> okexp (Z.max k1 k2 + 1) = true -> FR a = 0 ->
  fin (Z.max k1 k2 + 1) (PrimFloat.add a b) /\ FR (PrimFloat.add a b) = FR b.
Proof. intros Ha Hb Hk E. destruct (fin_add k1 k2 a b Ha Hb Hk) as [F R]. split; [exact F|]. rewrite R, E, Rplus_0_l. apply rnd_FR. Qed.

Lemma mul_zero_r k1 k2 a b : fin k1 a -> fin k2 b -> okexp (k1 + k2) = true -> FR b = 0 ->
  fin (k1 + k2) (PrimFloat.mul a b) /\ FR (PrimFloat.mul a b) = 0.
Proof. intros Ha Hb Hk E. destruct (fin_mul k1 k2 a b Ha Hb Hk) as [F R]. split; [exact F|]. rewrite R, E, Rmult_0_r. apply rnd_0'. Qed.

Lemma mul_one_r k1 a : fin k1 a -> okexp (k1 + 1) = true -> FR (PrimFloat.mul a one) = FR a.
Proof.
  intros Ha Hk. assert (H1 : fin 1 one) by fin_tac.
  destruct (fin_mul k1 1 a one Ha H1 Hk) as [_ R]. rewrite R.
  assert (E1 : FR one = 1).
  { destruct (const_FR one false 4503599627370496%positive (-52)%Z eq_refl) as [_ E]. rewrite E. simpl. lra. }
  rewrite E1, Rmult_1_r. apply rnd_FR.
Qed.

Lemma add_nonzero k1 k2 a b : fin k1 a -> fin k2 b -> okexp (Z.max k1 k2 + 1) = true -> FR a + FR b <> 0 ->
  FR (PrimFloat.add a b) <> 0.
Proof.
  intros Ha Hb Hk E. destruct (fin_add k1 k2 a b Ha Hb Hk) as [_ R]. rewrite R.
  apply round_plus_neq_0; auto with typeclass_instances; try apply fmt_FR.
Qed.

Lemma div_zero_num k a b : fin k a -> FR a = 0 -> ffin b -> FR b <> 0 -> fin 0 (PrimFloat.div a b).
Proof.
  intros [Fa _] Ea Fb Nz. unfold fin, ffin, FR in *. rewrite FP.div_equiv.
  generalize (Bdiv_correct prec emax FP.Hprec FP.Hmax mode_NE (FP.Prim2B a) (FP.Prim2B b) Nz).
  rewrite Ea. unfold Rdiv. rewrite Rmult_0_l. simpl round_mode.
  change (SpecFloat.fexp prec emax) with (FLT_exp emin prec). rewrite rnd_0', Rabs_R0.
  rewrite Rlt_bool_true by apply bpow_gt_0. intros (E & F & _). rewrite E, F, Rabs_R0. split; [exact Fa|apply bpow_ge_0].
Qed.

(* the common shape  c1 * (r + |r|) / ((r + c2) + eps * [r == -c2])  with c2 >= 1 *)
Section Shape.
Variables c1 c2 mc2 : PrimFloat.float.
Variable kc1 kc2 : Z.
Hypothesis Hc1 : fin kc1 c1.
Hypothesis Hc2 : fin kc2 c2.
Hypothesis Hmc2 : ffin mc2 /\ FR mc2 = - FR c2.
Hypothesis Hc2pos : pos 0 c2.
Hypothesis Hk : (0 <= kc1 <= 10 /\ 0 <= kc2 <= 10)%Z.

Lemma shape_finite eps r : fin 0 eps -> 0 < FR eps -> fin 500 r ->
  ffin (PrimFloat.div (PrimFloat.mul c1 (PrimFloat.add r (if PrimFloat.ltb r zero then PrimFloat.opp r else r)))
                      (PrimFloat.add (PrimFloat.add r c2) (PrimFloat.mul eps (if PrimFloat.eqb r mc2 then one else zero)))).
Proof.
  intros He Hep Hr. destruct FR_zero as [Fz Ez]. destruct Hk as [[K1 K1'] [K2 K2']].
  assert (H1 : fin 1 one) by fin_tac. assert (H0 : fin 0 zero) by fin_tac.
  assert (Ok : forall k, (-1000 <= k <= 1020)%Z -> okexp k = true).
  { intros k Hk'. unfold okexp. apply andb_true_iff. split; [apply Z.leb_le|apply Z.ltb_lt]; unfold emin, emax, prec; lia. }
  assert (Hx : fin (Z.max 500 kc2 + 1) (PrimFloat.add r c2)) by (apply fin_add; [assumption|assumption|apply Ok; lia]).
  rewrite (ltb_FR r zero (proj1 Hr) Fz), Ez.
  destruct (Rlt_bool_spec (FR r) 0) as [Hneg|Hpos].
  - (* r < 0: numerator exactly zero *)
    destruct (fin_opp 500 r Hr) as [Ho Eo].
    assert (Hs : fin (Z.max 500 500 + 1) (PrimFloat.add r (PrimFloat.opp r)) /\ FR (PrimFloat.add r (PrimFloat.opp r)) = 0)
      by (apply add_exact_zero; [assumption|assumption|apply Ok; lia|rewrite Eo; lra]).
    destruct Hs as [Hs Es].
    assert (Hn : fin (kc1 + (Z.max 500 500 + 1)) (PrimFloat.mul c1 (PrimFloat.add r (PrimFloat.opp r))) /\ FR (PrimFloat.mul c1 (PrimFloat.add r (PrimFloat.opp r))) = 0)
      by (apply mul_zero_r; [assumption|assumption|apply Ok; lia|assumption]).
    destruct Hn as [Hn En].
    assert (Den : ffin (PrimFloat.add (PrimFloat.add r c2) (PrimFloat.mul eps (if PrimFloat.eqb r mc2 then one else zero)))
                  /\ FR (PrimFloat.add (PrimFloat.add r c2) (PrimFloat.mul eps (if PrimFloat.eqb r mc2 then one else zero))) <> 0).
    { rewrite (eqb_FR r mc2 (proj1 Hr) (proj1 Hmc2)), (proj2 Hmc2).
      destruct (Req_bool_spec (FR r) (- FR c2)) as [Eq|Ne].
      - assert (Hx0 : fin (Z.max 500 kc2 + 1) (PrimFloat.add r c2) /\ FR (PrimFloat.add r c2) = 0)
          by (apply add_exact_zero; [assumption|assumption|apply Ok; lia|lra]).
        destruct Hx0 as [Hx0 Ex0].
        assert (Hm : fin (0 + 1) (PrimFloat.mul eps one)) by (apply fin_mul; [assumption|assumption|apply Ok; lia]).
        assert (Hd : fin (Z.max (Z.max 500 kc2 + 1) (0 + 1) + 1) (PrimFloat.add (PrimFloat.add r c2) (PrimFloat.mul eps one))
                     /\ FR (PrimFloat.add (PrimFloat.add r c2) (PrimFloat.mul eps one)) = FR (PrimFloat.mul eps one))
          by (apply add_zero_l; [assumption|assumption|apply Ok; lia|assumption]).
        destruct Hd as [Hd Ed].
        split; [exact (proj1 Hd)|]. rewrite Ed, (mul_one_r 0 eps He) by (apply Ok; lia). lra.
      - assert (Hm : fin (0 + 0) (PrimFloat.mul eps zero) /\ FR (PrimFloat.mul eps zero) = 0)
          by (apply mul_zero_r; [assumption|assumption|apply Ok; lia|assumption]).
        destruct Hm as [Hm Em].
        assert (Hd : fin (Z.max (Z.max 500 kc2 + 1) (0 + 0) + 1) (PrimFloat.add (PrimFloat.add r c2) (PrimFloat.mul eps zero))
                     /\ FR (PrimFloat.add (PrimFloat.add r c2) (PrimFloat.mul eps zero)) = FR (PrimFloat.add r c2))
          by (apply add_zero_r; [assumption|assumption|apply Ok; lia|assumption]).
        destruct Hd as [Hd Ed].
        split; [exact (proj1 Hd)|]. rewrite Ed. apply (add_nonzero 500 kc2 r c2 Hr Hc2); [apply Ok; lia|lra]. }
    exact (proj1 (div_zero_num _ _ _ Hn En (proj1 Den) (proj2 Den))).
  - (* r >= 0: denominator at least c2 >= 1 *)
    assert (Hs : fin (Z.max 500 500 + 1) (PrimFloat.add r r)) by (apply fin_add; [assumption|assumption|apply Ok; lia]).
    assert (Hn : fin (kc1 + (Z.max 500 500 + 1)) (PrimFloat.mul c1 (PrimFloat.add r r))) by (apply fin_mul; [assumption|assumption|apply Ok; lia]).
    assert (Hp : pos 0 (PrimFloat.add r c2)) by (apply (pos_add_r 500 kc2); [assumption|assumption|apply Ok; lia|assumption|assumption]).
    assert (Hb : fin 1 (if PrimFloat.eqb r mc2 then one else zero)) by (destruct (PrimFloat.eqb r mc2); [exact H1|eapply fin_weaken; [exact H0|lia]]).
    assert (Hm : fin (0 + 1) (PrimFloat.mul eps (if PrimFloat.eqb r mc2 then one else zero))) by (apply fin_mul; [assumption|assumption|apply Ok; lia]).
    assert (Hmn : 0 <= FR (PrimFloat.mul eps (if PrimFloat.eqb r mc2 then one else zero))).
    { destruct (PrimFloat.eqb r mc2).
      - rewrite (mul_one_r 0 eps He) by (apply Ok; lia). lra.
      - assert (Hz : fin (0 + 0) (PrimFloat.mul eps zero) /\ FR (PrimFloat.mul eps zero) = 0)
          by (apply mul_zero_r; [assumption|assumption|apply Ok; lia|assumption]).
        rewrite (proj2 Hz). lra. }
    assert (Hpd : pos 0 (PrimFloat.add (PrimFloat.add r c2) (PrimFloat.mul eps (if PrimFloat.eqb r mc2 then one else zero))))
      by (apply (pos_add_l (Z.max 500 kc2 + 1) (0 + 1)); [assumption|assumption|apply Ok; lia|assumption|assumption]).
    assert (Hd : fin (Z.max (Z.max 500 kc2 + 1) (0 + 1) + 1) (PrimFloat.add (PrimFloat.add r c2) (PrimFloat.mul eps (if PrimFloat.eqb r mc2 then one else zero))))
      by (apply fin_add; [assumption|assumption|apply Ok; lia]).
    assert (Hq : fin (kc1 + (Z.max 500 500 + 1) - 0) (PrimFloat.div (PrimFloat.mul c1 (PrimFloat.add r r))
              (PrimFloat.add (PrimFloat.add r c2) (PrimFloat.mul eps (if PrimFloat.eqb r mc2 then one else zero)))))
      by (eapply fin_div'; [exact Hn|exact Hd|exact Hpd|apply Ok; lia]).
    exact (proj1 Hq).
Qed.
End Shape.

Lemma pos_weaken l l' f : pos l f -> (l' <= l)%Z -> pos l' f.
Proof. unfold pos. intros H Hl. eapply Rle_trans; [apply bpow_le; exact Hl|exact H]. Qed.

Ltac shape_side :=
  match goal with
  | |- fin _ _ => eapply fin_weaken; [fin_tac|vm_compute; discriminate]
  | |- ffin (PrimFloat.opp ?c) /\ FR (PrimFloat.opp ?c) = - FR ?c =>
      let H := fresh in assert (H : fin 10 c) by (eapply fin_weaken; [fin_tac|vm_compute; discriminate]);
      destruct (fin_opp 10 c H) as [[? _] ?]; split; assumption
  | |- pos 0 _ => eapply pos_weaken; [pos_tac|vm_compute; discriminate]
  | |- (_ /\ _)%Z => lia
  end.

Lemma float_HCUS eps r : fin 0 eps -> 0 < FR eps -> fin 500 r -> ffin (FL_HCUS FOps eps r).
Proof.
  intros He Hp Hr. unfold_model.
  apply (shape_finite ((one + (one + one)) / (one + one))%float (one + one)%float (- (one + one))%float 1 2); try shape_side; assumption.
Qed.
Lemma float_HQUICK eps r : fin 0 eps -> 0 < FR eps -> fin 500 r -> ffin (FL_HQUICK FOps eps r).
Proof.
  intros He Hp Hr. unfold_model.
  apply (shape_finite (one + one)%float (one + (one + one))%float (- (one + (one + one)))%float 2 2); try shape_side; assumption.
Qed.

(* the default eps of fluxLimiter satisfies the hypotheses (the closed constant is evaluated by the kernel's float arithmetic first) *)
Lemma eps_default_ok : fin 0 (eps_default FOps) /\ 0 < FR (eps_default FOps).
Proof.
  let v := eval vm_compute in (eps_default FOps) in
    replace (eps_default FOps) with v by (vm_compute; reflexivity).
  split.
  - eapply fin_weaken; [fin_tac|vm_compute; discriminate].
  - match goal with |- 0 < FR ?c =>
      let v := eval vm_compute in (Prim2SF c) in
      lazymatch v with S754_finite false ?m ?e =>
        destruct (const_FR c false m e (eq_refl v <: Prim2SF c = v)) as [_ E]; rewrite E end end.
    apply Rmult_lt_0_compat; [apply IZR_lt; reflexivity|apply bpow_gt_0].
Qed.
