(* C07 — Discrete maximum principle: no overshoot, no negative concentrations.
   (1) every solution of a system whose rows are convex combinations (plus sink) stays within the data;
   (2) sign structure of the diffusion and upwind stencils of the model (tied to every builder by the operator suites);
   (3) per axis, -diffusionTerm(D) + convectionUpwindTerm(u) has exactly that row shape, with diagonal excess = div(u).
   PARTIAL: the elimination of ghost cells through the boundary rows (Dirichlet x_g = 2c - x_i, no-flux x_g = x_i, periodic) and
   the summation over axes that turn (2)-(3) into an instance of (1) are carried out numerically by the check on the
   matrices the implementation assembles (off-diagonals <= 0, row sums), not as a Coq theorem. *)
From Coq Require Import Reals Arith List Lra Lia.
From PFV Require Import OField KOps Grid Ops StencilThy MaxPrincipleThy.
Local Open Scope R_scope.

Theorem C07_upper : forall n x g w s beta (M : R),
  (0 < n)%nat -> convex_system n x g w s beta -> (forall i, (i < n)%nat -> g i <= M) -> 0 <= M ->
  forall i, (i < n)%nat -> x i <= M.
Proof. exact convex_rows_upper. Qed.
Print Assumptions C07_upper.
Theorem C07_lower : forall n x g w s beta (m : R),
  (0 < n)%nat -> convex_system n x g w s beta -> (forall i, (i < n)%nat -> m <= g i) -> m <= 0 ->
  forall i, (i < n)%nat -> m <= x i.
Proof. exact convex_rows_lower. Qed.
Print Assumptions C07_lower.
Theorem C07_upper_without_sink : forall n x g w s (M : R),
  (0 < n)%nat -> convex_system n x g w s (fun _ => 0) -> (forall i, (i < n)%nat -> g i <= M) ->
  forall i, (i < n)%nat -> x i <= M.
Proof. exact convex_rows_upper_nosink. Qed.
Print Assumptions C07_upper_without_sink.
Theorem C07_nonnegative : forall n x g w s beta,
  (0 < n)%nat -> convex_system n x g w s beta -> (forall i, (i < n)%nat -> 0 <= g i) -> forall i, (i < n)%nat -> 0 <= x i.
Proof. exact nonnegative_stays_nonnegative. Qed.
Print Assumptions C07_nonnegative.

Theorem C07_row_shape : forall (m : Mesh ROps) a c,
  0 <= mA ROps m a (cidx a c) /\ 0 <= mA ROps m a (pred (cidx a c)) -> 0 < mW ROps m a (cidx a c) -> 0 <= mfac ROps m a c ->
  0 < mdxf ROps m a (cidx a c) /\ 0 < mdxf ROps m a (pred (cidx a c)) ->
  is_lo a c = false -> is_hi ROps m a c = false ->
  forall (D u : fvar ROps) (x : cvar ROps), 0 <= D a c -> 0 <= D a (cdn a c) ->
  let wdn := diffAW ROps m D a c - upwAW ROps m u u a c in
  let wup := diffAE ROps m D a c - upwAE ROps m u u a c in
  0 <= wdn /\ 0 <= wup /\
  - apply_axis ROps (diffAW ROps m D) (diffAP ROps m D) (diffAE ROps m D) x a c
  + apply_axis ROps (upwAW ROps m u u) (upwAP ROps m u u) (upwAE ROps m u u) x a c
  = (wdn + wup + divrow ROps m u a c) * x c - wdn * x (cdn a c) - wup * x (cup a c).
Proof. exact row_convex_axis. Qed.
Print Assumptions C07_row_shape.

(* non-vacuity: a 2-unknown system x0 = (x1 + g0)/2, x1 = (x0 + g1)/2 *)
Example C07_nonvacuous : convex_system 2 (fun i => match i with 0%nat => 5/3 | _ => 4/3 end) (fun i => match i with 0%nat => 2 | _ => 1 end)
                                        (fun i j => if Nat.eqb i j then 0 else 1) (fun _ => 1) (fun _ => 0).
Proof.
  constructor.
  - intros i Hi. destruct i as [|[|i]]; cbn; try lra; lia.
  - intros i j _ _. destruct (Nat.eqb i j); lra.
  - intros; lra.
  - intros; lra.
Qed.
