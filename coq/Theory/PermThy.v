(* C08: relabelling the axes of a Cartesian grid permutes the discrete operators.
   For each of the six permutations p of (x, y, z) -- on Grid2D only those fixing z -- the mesh with permuted axes,
   coefficient fields with permuted components and a cell field with permuted indices give, in the permuted cell, exactly the
   value the original stencil gives in the original cell: diffusion, central and upwind advection, and every boundary-free
   combination of them.  (The model has ONE per-axis stencil, so this is bookkeeping; it is stated so that the symmetry is a
   theorem about the same definitions the correspondence suites tie to the per-class builders.) *)
From Coq Require Import Arith List Bool Field Lia.
From PFV Require Import OField KOps Grid Ops StencilThy ConservThy.
Import ListNotations.

Inductive perm := P_id | P_xy | P_xz | P_yz | P_c1 | P_c2.
Definition pact (p : perm) (a : axis) : axis :=
  match p, a with
  | P_id, _ => a
  | P_xy, AX => AY | P_xy, AY => AX | P_xy, AZ => AZ
  | P_xz, AX => AZ | P_xz, AY => AY | P_xz, AZ => AX
  | P_yz, AX => AX | P_yz, AY => AZ | P_yz, AZ => AY
  | P_c1, AX => AY | P_c1, AY => AZ | P_c1, AZ => AX
  | P_c2, AX => AZ | P_c2, AY => AX | P_c2, AZ => AY
  end.
Definition pinv (p : perm) : perm := match p with P_c1 => P_c2 | P_c2 => P_c1 | q => q end.
(* the cell whose index along a is the index of c along (pact p a) *)
Definition pcell (p : perm) (c : cell) : cell := (cidx (pact p AX) c, cidx (pact p AY) c, cidx (pact p AZ) c).

Lemma pact_pinv p a : pact p (pact (pinv p) a) = a.
Proof. destruct p, a; reflexivity. Qed.
Lemma pact_pinv' p a : pact (pinv p) (pact p a) = a.
Proof. destruct p, a; reflexivity. Qed.
Lemma cidx_pcell p a c : cidx a (pcell p c) = cidx (pact p a) c.
Proof. destruct a; reflexivity. Qed.
Lemma pcell_inv p c : pcell (pinv p) (pcell p c) = c.
Proof. destruct c as [[i j] k]. destruct p; reflexivity. Qed.
Lemma pcell_inv' p c : pcell p (pcell (pinv p) c) = c.
Proof. destruct c as [[i j] k]. destruct p; reflexivity. Qed.
Lemma cset_pcell p a c n : cset a (pcell p c) n = pcell p (cset (pact p a) c n).
Proof. destruct c as [[i j] k]. destruct p, a; reflexivity. Qed.
Lemma cup_pcell p a c : cup a (pcell p c) = pcell p (cup (pact p a) c).
Proof. unfold cup. rewrite cidx_pcell. apply cset_pcell. Qed.
Lemma cdn_pcell p a c : cdn a (pcell p c) = pcell p (cdn (pact p a) c).
Proof. unfold cdn. rewrite cidx_pcell. apply cset_pcell. Qed.

Section Perm.
Variable F : FieldOps.
Variable L : FieldLaws F.
Add Field FFperm : (FL_field F L).
Local Notation K := (K F).
Local Notation Mesh := (Mesh F).

Definition cartesian (m : Mesh) : Prop := match mcls F m with G1 | G2 | G3 => True | _ => False end.
Definition perm_ok (p : perm) (m : Mesh) : Prop := forall a, active F m (pact p a) = active F m a.
Definition pmesh (p : perm) (m : Mesh) : Mesh :=
  mkMesh F (mcls F m) (fun a => max F m (pact p a)) (mpi F m) (msinp F m) (msinf F m).
Definition pcvar (p : perm) (x : cvar F) : cvar F := fun c' => x (pcell (pinv p) c').
Definition pfvar (p : perm) (D : fvar F) : fvar F := fun a c' => D (pact p a) (pcell (pinv p) c').

Lemma pcvar_at p x c : pcvar p x (pcell p c) = x c.
Proof. unfold pcvar. rewrite pcell_inv. reflexivity. Qed.
Lemma pfvar_at p D a c : pfvar p D a (pcell p c) = D (pact p a) c.
Proof. unfold pfvar. rewrite pcell_inv. reflexivity. Qed.

(* metric quantities of a Cartesian mesh along axis a of the permuted mesh = those of the original along pact p a *)
Lemma pN p m a : mN F (pmesh p m) a = mN F m (pact p a).
Proof. reflexivity. Qed.
Lemma pDX p m a i : mDX F (pmesh p m) a i = mDX F m (pact p a) i.
Proof. reflexivity. Qed.
Lemma pdxf p m a i : mdxf F (pmesh p m) a i = mdxf F m (pact p a) i.
Proof. reflexivity. Qed.
Lemma cart_A m a i : cartesian m -> mA F m a i = k1 F.
Proof. unfold cartesian, mA. destruct (mcls F m); intros H; try contradiction; destruct a; reflexivity. Qed.
Lemma cart_W m a i : cartesian m -> mW F m a i = mDX F m a i.
Proof. unfold cartesian, mW. destruct (mcls F m); intros H; try contradiction; destruct a; reflexivity. Qed.
Lemma cart_fac m a c : cartesian m -> mfac F m a c = k1 F.
Proof. unfold cartesian, mfac. destruct (mcls F m); intros H; try contradiction; destruct a; reflexivity. Qed.
Lemma cart_pmesh p m : cartesian m -> cartesian (pmesh p m).
Proof. intros H. exact H. Qed.

Ltac metric p m Hc :=
  rewrite ?(cart_A (pmesh p m)), ?(cart_W (pmesh p m)), ?(cart_fac (pmesh p m)) by (apply cart_pmesh; exact Hc);
  rewrite ?(cart_A m), ?(cart_W m), ?(cart_fac m) by exact Hc;
  rewrite ?pDX, ?pdxf, ?pN, ?cidx_pcell, ?cdn_pcell, ?cup_pcell, ?pfvar_at, ?pcvar_at.

Section Families.
Variable p : perm.
Variable m : Mesh.
Hypothesis Hc : cartesian m.

Lemma perm_diffAE D a c : diffAE F (pmesh p m) (pfvar p D) a (pcell p c) = diffAE F m D (pact p a) c.
Proof. unfold diffAE. metric p m Hc. reflexivity. Qed.
Lemma perm_diffAW D a c : diffAW F (pmesh p m) (pfvar p D) a (pcell p c) = diffAW F m D (pact p a) c.
Proof. unfold diffAW. metric p m Hc. reflexivity. Qed.
Lemma perm_diffAP D a c : diffAP F (pmesh p m) (pfvar p D) a (pcell p c) = diffAP F m D (pact p a) c.
Proof. unfold diffAP. rewrite perm_diffAE, perm_diffAW. reflexivity. Qed.

Lemma perm_cenE u a c : cenE F (pmesh p m) (pfvar p u) a (pcell p c) = cenE F m u (pact p a) c.
Proof. unfold cenE. metric p m Hc. reflexivity. Qed.
Lemma perm_cenW u a c : cenW F (pmesh p m) (pfvar p u) a (pcell p c) = cenW F m u (pact p a) c.
Proof. unfold cenW. metric p m Hc. reflexivity. Qed.
Lemma perm_cenAP u a c : cenAP F (pmesh p m) (pfvar p u) a (pcell p c) = cenAP F m u (pact p a) c.
Proof. unfold cenAP. rewrite perm_cenE, perm_cenW. metric p m Hc. reflexivity. Qed.

Lemma perm_umax u uup a c : umax F (pfvar p u) (pfvar p uup) a (pcell p c) = umax F u uup (pact p a) c.
Proof. unfold umax. rewrite !pfvar_at. reflexivity. Qed.
Lemma perm_umin u uup a c : umin F (pfvar p u) (pfvar p uup) a (pcell p c) = umin F u uup (pact p a) c.
Proof. unfold umin. rewrite !pfvar_at. reflexivity. Qed.
Lemma perm_is_lo a c : is_lo a (pcell p c) = is_lo (pact p a) c.
Proof. unfold is_lo. rewrite cidx_pcell. reflexivity. Qed.
Lemma perm_is_hi a c : is_hi F (pmesh p m) a (pcell p c) = is_hi F m (pact p a) c.
Proof. unfold is_hi. rewrite cidx_pcell, pN. reflexivity. Qed.
Lemma perm_upwAE u uup a c : upwAE F (pmesh p m) (pfvar p u) (pfvar p uup) a (pcell p c) = upwAE F m u uup (pact p a) c.
Proof. unfold upwAE. rewrite perm_is_hi, perm_umin. metric p m Hc. reflexivity. Qed.
Lemma perm_upwAW u uup a c : upwAW F (pmesh p m) (pfvar p u) (pfvar p uup) a (pcell p c) = upwAW F m u uup (pact p a) c.
Proof. unfold upwAW. rewrite perm_is_lo. metric p m Hc. rewrite perm_umax. reflexivity. Qed.
Lemma perm_upwAP u uup a c : upwAP F (pmesh p m) (pfvar p u) (pfvar p uup) a (pcell p c) = upwAP F m u uup (pact p a) c.
Proof.
  unfold upwAP. rewrite perm_is_lo, perm_is_hi, perm_umax, perm_umin. metric p m Hc. rewrite perm_umax, perm_umin. reflexivity.
Qed.

(* generic: stencil families related axis by axis give the same row value *)
Lemma perm_apply_axis (AW' AP' AE' AW AP AE : axis -> cell -> K) (x : cvar F) a c :
  AW' a (pcell p c) = AW (pact p a) c -> AP' a (pcell p c) = AP (pact p a) c -> AE' a (pcell p c) = AE (pact p a) c ->
  apply_axis F AW' AP' AE' (pcvar p x) a (pcell p c) = apply_axis F AW AP AE x (pact p a) c.
Proof.
  intros E1 E2 E3. unfold apply_axis. rewrite E1, E2, E3, cdn_pcell, cup_pcell, !pcvar_at. reflexivity.
Qed.

Hypothesis Hp : perm_ok p m.
Lemma perm_sum_axes (g : axis -> K) : sum_axes F (pmesh p m) (fun a => g (pact p a)) = sum_axes F m g.
Proof.
  unfold sum_axes. change (mcls F (pmesh p m)) with (mcls F m). unfold axes_of.
  pose proof (Hp AX) as HX. pose proof (Hp AY) as HY. pose proof (Hp AZ) as HZ. unfold active in HX, HY, HZ.
  destruct (gdim (mcls F m)) as [|[|[|[|n]]]]; cbn [Nat.leb] in *; destruct p; cbn [pact] in *;
    try discriminate; cbn [map ksum fold_right]; ring.
Qed.

Theorem perm_apply_stencil (AW' AP' AE' AW AP AE : axis -> cell -> K) (x : cvar F) c :
  (forall a, AW' a (pcell p c) = AW (pact p a) c /\ AP' a (pcell p c) = AP (pact p a) c /\ AE' a (pcell p c) = AE (pact p a) c) ->
  apply_stencil F (pmesh p m) AW' AP' AE' (pcvar p x) (pcell p c) = apply_stencil F m AW AP AE x c.
Proof.
  intros H. unfold apply_stencil. rewrite <- (perm_sum_axes (fun b => apply_axis F AW AP AE x b c)).
  unfold sum_axes. f_equal. apply map_ext. intros a. destruct (H a) as (E1 & E2 & E3). apply perm_apply_axis; assumption.
Qed.

Theorem diffusion_permutes (D : fvar F) (x : cvar F) c :
  apply_stencil F (pmesh p m) (diffAW F (pmesh p m) (pfvar p D)) (diffAP F (pmesh p m) (pfvar p D)) (diffAE F (pmesh p m) (pfvar p D))
    (pcvar p x) (pcell p c)
  = apply_stencil F m (diffAW F m D) (diffAP F m D) (diffAE F m D) x c.
Proof. apply perm_apply_stencil. intros a. repeat split; [apply perm_diffAW|apply perm_diffAP|apply perm_diffAE]. Qed.
Theorem central_permutes (u : fvar F) (x : cvar F) c :
  apply_stencil F (pmesh p m) (cenAW F (pmesh p m) (pfvar p u)) (cenAP F (pmesh p m) (pfvar p u)) (cenAE F (pmesh p m) (pfvar p u))
    (pcvar p x) (pcell p c)
  = apply_stencil F m (cenAW F m u) (cenAP F m u) (cenAE F m u) x c.
Proof.
  apply perm_apply_stencil. intros a. repeat split.
  - unfold cenAW. rewrite perm_cenW. reflexivity.
  - apply perm_cenAP.
  - unfold cenAE. apply perm_cenE.
Qed.
Theorem upwind_permutes (u uup : fvar F) (x : cvar F) c :
  apply_stencil F (pmesh p m) (upwAW F (pmesh p m) (pfvar p u) (pfvar p uup)) (upwAP F (pmesh p m) (pfvar p u) (pfvar p uup))
    (upwAE F (pmesh p m) (pfvar p u) (pfvar p uup)) (pcvar p x) (pcell p c)
  = apply_stencil F m (upwAW F m u uup) (upwAP F m u uup) (upwAE F m u uup) x c.
Proof. apply perm_apply_stencil. intros a. repeat split; [apply perm_upwAW|apply perm_upwAP|apply perm_upwAE]. Qed.

(* interior cells are mapped to interior cells *)
Lemma perm_interior c : interior F (pmesh p m) (pcell p c) = true <-> interior F m c = true.
Proof.
  rewrite !(interior_iff F). split; intros H a Ha.
  - specialize (H (pact (pinv p) a)). rewrite cidx_pcell, pN, pact_pinv in H. apply H.
    change (active F (pmesh p m) (pact (pinv p) a)) with (active F m (pact (pinv p) a)).
    rewrite <- (Hp (pact (pinv p) a)), pact_pinv. exact Ha.
  - rewrite cidx_pcell, pN. apply H. rewrite (Hp a). exact Ha.
Qed.
End Families.
End Perm.
