(* C01: flux-form operators change the volume-weighted sum only through boundary faces.
   Generic over the field, the grid class, N, spacing, fluxes. *)
From Coq Require Import Arith List Bool Field Lia.
From PFV Require Import OField KOps Sums Grid Ops StencilThy.
Import ListNotations.

Section Conserv.
Variable F : FieldOps.
Variable L : FieldLaws F.
Add Field FFc : (FL_field F L).
Local Notation K := (K F).
Local Notation "0" := (k0 F).
Local Notation "1" := (k1 F).
Local Infix "+" := (kadd F).
Local Infix "*" := (kmul F).
Local Infix "-" := (ksub F).
Local Infix "/" := (kdiv F).
Local Notation Mesh := (Mesh F).
Local Notation sumn := (sumn F).

(* ---- one grid line ---- *)
(* If along the line through c0 in direction a the measure V satisfies V*fac = T*W, the
   V-weighted sum of the flux-form rows is T times (flux through the last face - flux through the first). *)
Theorem line_telescopes (m : Mesh) (Fl : fvar F) (V : cell -> K) a c0 (T : K) :
  (forall i, 1 <= i <= mN F m a -> mW F m a i <> 0) ->
  (forall i, 1 <= i <= mN F m a -> V (cset a c0 i) * mfac F m a c0 = T * mW F m a i) ->
  sumn (fun i => V (cset a c0 i) * divrow F m Fl a (cset a c0 i)) 1 (mN F m a)
  = T * (mA F m a (mN F m a) * Fl a (cset a c0 (mN F m a)) - mA F m a 0 * Fl a (cset a c0 0)).
Proof.
  intros HW HV.
  set (g := fun i => T * (mA F m a i * Fl a (cset a c0 i))).
  rewrite (sumn_ext F _ (fun p => g p - g (pred p))).
  - (* shift the index: sum_{p=1..N} (g p - g (p-1)) = sum_{q=0..N-1} (g (q+1) - g q) *)
    assert (E : forall n s, sumn (fun p => g p - g (pred p)) (S s) n = sumn (fun q => g (S q) - g q) s n).
    { induction n as [|n IH]; intros s; cbn [Sums.sumn]; [reflexivity|]. rewrite IH. reflexivity. }
    rewrite E, (sumn_telescope F L). unfold g. cbn [Nat.add]. ring.
  - intros p Hp. unfold g, divrow.
    rewrite (mfac_indep F m a c0 p), cidx_cset.
    unfold cdn. rewrite cidx_cset, cset_cset.
    assert (HVp := HV p ltac:(lia)). assert (HWp := HW p ltac:(lia)).
    transitivity (V (cset a c0 p) * mfac F m a c0 / mW F m a p
                  * (mA F m a p * Fl a (cset a c0 p) - mA F m a (pred p) * Fl a (cset a c0 (pred p)))).
    { field. exact HWp. }
    rewrite HVp. field. exact HWp.
Qed.

(* ---- the whole grid ---- *)
Definition lo (m : Mesh) (a : axis) : nat := if active F m a then 1 else 0.
Definition cnt (m : Mesh) (a : axis) : nat := if active F m a then mN F m a else 1.
(* sum over a box of cells *)
Definition sum3 (lx nx ly ny lz nz : nat) (f : cell -> K) : K :=
  sumn (fun i => sumn (fun j => sumn (fun k => f (i, j, k)) lz nz) ly ny) lx nx.
(* sum over the interior cells: what cellvolume-weighted sums (domainIntegral) range over *)
Definition sum_cells (m : Mesh) (f : cell -> K) : K :=
  sum3 (lo m AX) (cnt m AX) (lo m AY) (cnt m AY) (lo m AZ) (cnt m AZ) f.
(* sum over the boundary faces normal to axis a (one representative cell per grid line) *)
Definition sum_lines (m : Mesh) (a : axis) (f : cell -> K) : K :=
  match a with
  | AX => sum3 0 1 (lo m AY) (cnt m AY) (lo m AZ) (cnt m AZ) f
  | AY => sum3 (lo m AX) (cnt m AX) 0 1 (lo m AZ) (cnt m AZ) f
  | AZ => sum3 (lo m AX) (cnt m AX) (lo m AY) (cnt m AY) 0 1 f
  end.

Lemma sum3_ext lx nx ly ny lz nz f g :
  (forall i j k, lx <= i < lx + nx -> ly <= j < ly + ny -> lz <= k < lz + nz -> f (i, j, k) = g (i, j, k)) ->
  sum3 lx nx ly ny lz nz f = sum3 lx nx ly ny lz nz g.
Proof.
  intros H. unfold sum3. apply sumn_ext. intros i Hi. apply sumn_ext. intros j Hj. apply sumn_ext. intros k Hk.
  apply H; assumption.
Qed.
Lemma sum3_add lx nx ly ny lz nz f g :
  sum3 lx nx ly ny lz nz (fun c => f c + g c) = sum3 lx nx ly ny lz nz f + sum3 lx nx ly ny lz nz g.
Proof.
  unfold sum3. rewrite <- (sumn_add F L). apply sumn_ext. intros i _.
  rewrite <- (sumn_add F L). apply sumn_ext. intros j _. rewrite <- (sumn_add F L). reflexivity.
Qed.
Lemma sum3_zero lx nx ly ny lz nz : sum3 lx nx ly ny lz nz (fun _ => 0) = 0.
Proof.
  unfold sum3. transitivity (sumn (fun _ => 0) lx nx); [|apply (sumn_zero F L)].
  apply sumn_ext. intros i _. transitivity (sumn (fun _ => 0) ly ny); [|apply (sumn_zero F L)].
  apply sumn_ext. intros j _. apply (sumn_zero F L).
Qed.

(* the measure condition of DESIGN.md section 3: along axis a, V * fac / W does not depend on the
   position along a; T a c is that transverse measure (it may depend on the other indices) *)
Definition measure_ok (m : Mesh) (V : cell -> K) (T : axis -> cell -> K) (a : axis) : Prop :=
  (forall c n, T a (cset a c n) = T a c) /\
  (forall c, interior F m c = true -> mW F m a (cidx a c) <> 0 /\
                                      V c * mfac F m a c = T a c * mW F m a (cidx a c)).

Definition bflux (m : Mesh) (Fl : fvar F) (T : axis -> cell -> K) (a : axis) (c : cell) : K :=
  T a c * (mA F m a (mN F m a) * Fl a (cset a c (mN F m a)) - mA F m a 0 * Fl a (cset a c 0)).

Lemma interior_iff (m : Mesh) (c : cell) :
  interior F m c = true <->
  (forall a, active F m a = true -> 1 <= cidx a c <= mN F m a).
Proof.
  unfold interior, axes_of, active. destruct c as [[i j] k].
  destruct (mcls F m); cbn [gdim forallb cidx andb]; rewrite ?andb_true_iff, ?Nat.leb_le; split.
  all: try (intros H a Ha; destruct a; cbn in Ha; cbn [cidx]; try discriminate Ha; lia).
  all: intros H; try (pose proof (H AX eq_refl) as HX; cbn [cidx] in HX);
       try (pose proof (H AY eq_refl) as HY; cbn [cidx] in HY);
       try (pose proof (H AZ eq_refl) as HZ; cbn [cidx] in HZ); repeat split; lia.
Qed.

Lemma line_conserved (m : Mesh) (Fl : fvar F) V T a c0 :
  measure_ok m V T a ->
  (forall i, 1 <= i <= mN F m a -> interior F m (cset a c0 i) = true) ->
  sumn (fun i => V (cset a c0 i) * divrow F m Fl a (cset a c0 i)) 1 (mN F m a) = bflux m Fl T a c0.
Proof.
  intros [HT HM] Hint. unfold bflux. apply line_telescopes.
  - intros i Hi. destruct (HM _ (Hint i Hi)) as [HW _]. rewrite cidx_cset in HW. exact HW.
  - intros i Hi. destruct (HM _ (Hint i Hi)) as [_ HV].
    rewrite cidx_cset, (mfac_indep F m a c0 i), HT in HV. exact HV.
Qed.

Lemma in_box_interior (m : Mesh) i j k :
  lo m AX <= i < lo m AX + cnt m AX -> lo m AY <= j < lo m AY + cnt m AY -> lo m AZ <= k < lo m AZ + cnt m AZ ->
  interior F m (i, j, k) = true.
Proof.
  intros Hi Hj Hk. apply interior_iff. intros a Ha. unfold lo, cnt in *.
  destruct a; cbn [cidx]; rewrite Ha in *; lia.
Qed.

Theorem divrow_conserved (m : Mesh) (Fl : fvar F) V T a :
  active F m a = true -> measure_ok m V T a ->
  sum_cells m (fun c => V c * divrow F m Fl a c) = sum_lines m a (bflux m Fl T a).
Proof.
  intros Ha HM. unfold sum_cells, sum_lines, sum3.
  assert (Hlo : lo m a = 1%nat) by (unfold lo; rewrite Ha; reflexivity).
  assert (Hcnt : cnt m a = mN F m a) by (unfold cnt; rewrite Ha; reflexivity).
  destruct a.
  - (* AX: bring the i-sum innermost *)
    rewrite (sumn_swap F L). rewrite (sumn_one F L).
    apply sumn_ext. intros j Hj. rewrite (sumn_swap F L). apply sumn_ext. intros k Hk.
    rewrite Hlo, Hcnt.
    apply (line_conserved m Fl V T AX (0%nat, j, k) HM).
    intros i Hi. cbn [cset]. apply in_box_interior; try assumption. rewrite Hlo, Hcnt. lia.
  - apply sumn_ext. intros i Hi. rewrite (sumn_one F L). rewrite (sumn_swap F L).
    apply sumn_ext. intros k Hk. rewrite Hlo, Hcnt.
    apply (line_conserved m Fl V T AY (i, 0%nat, k) HM).
    intros j Hj. cbn [cset]. apply in_box_interior; try assumption. rewrite Hlo, Hcnt. lia.
  - apply sumn_ext. intros i Hi. apply sumn_ext. intros j Hj. rewrite (sumn_one F L). rewrite Hlo, Hcnt.
    apply (line_conserved m Fl V T AZ (i, j, 0%nat) HM).
    intros k Hk. cbn [cset]. apply in_box_interior; try assumption. rewrite Hlo, Hcnt. lia.
Qed.

(* all axes together: the V-weighted sum of the divergence is the sum of the boundary fluxes *)
Definition active_axes (m : Mesh) : list axis := axes_of (mcls F m).
Lemma axes_active (m : Mesh) a : In a (active_axes m) -> active F m a = true.
Proof.
  unfold active_axes, axes_of, active. destruct (mcls F m); cbn [gdim In]; intros H;
  repeat (destruct H as [<-|H]; [reflexivity|]); contradiction.
Qed.

Lemma sum_cells_ext (m : Mesh) f g : (forall c, f c = g c) -> sum_cells m f = sum_cells m g.
Proof. intros H. unfold sum_cells. apply sum3_ext. intros. apply H. Qed.
Lemma sum_cells_add (m : Mesh) f g : sum_cells m (fun c => f c + g c) = sum_cells m f + sum_cells m g.
Proof. unfold sum_cells. apply sum3_add. Qed.

Lemma sum_cells_scal (m : Mesh) (k : K) f : sum_cells m (fun c => k * f c) = k * sum_cells m f.
Proof.
  unfold sum_cells, sum3. rewrite <- (sumn_scal F L). apply sumn_ext. intros i _.
  rewrite <- (sumn_scal F L). apply sumn_ext. intros j _. apply (sumn_scal F L).
Qed.
Lemma sum_cells_zero (m : Mesh) : sum_cells m (fun _ => 0) = 0.
Proof. unfold sum_cells. apply sum3_zero. Qed.
Lemma sum_cells_ksum (m : Mesh) (V : cell -> K) (g : axis -> cell -> K) (l : list axis) :
  sum_cells m (fun c => V c * ksum F (map (fun a => g a c) l))
  = ksum F (map (fun a => sum_cells m (fun c => V c * g a c)) l).
Proof.
  induction l as [|a l IH]; cbn [map ksum fold_right].
  - transitivity (sum_cells m (fun _ => 0)); [|apply sum_cells_zero].
    apply sum_cells_ext. intros c. ring.
  - change (fold_right (kadd F) 0 (map (fun a0 => sum_cells m (fun c => V c * g a0 c)) l))
      with (ksum F (map (fun a0 => sum_cells m (fun c => V c * g a0 c)) l)).
    rewrite <- IH, <- sum_cells_add. apply sum_cells_ext. intros c. unfold ksum. ring.
Qed.

Theorem divergence_conserved (m : Mesh) (Fl : fvar F) V T :
  (forall a, In a (active_axes m) -> measure_ok m V T a) ->
  sum_cells m (fun c => V c * divergence F m Fl c)
  = ksum F (map (fun a => sum_lines m a (bflux m Fl T a)) (active_axes m)).
Proof.
  intros HM. unfold divergence, sum_axes. fold (active_axes m).
  rewrite (sum_cells_ksum m V (fun a c => divrow F m Fl a c)).
  f_equal. apply map_ext_in. intros a Ha.
  apply divrow_conserved; [apply axes_active; exact Ha|apply HM; exact Ha].
Qed.
End Conserv.
