"""C11 check module."""
import traceback
import lib
from common import run_suites
import probes


def run(ctx):
    import pyfvtool as pf
    ctx.rule = ("means suite: linearMean / arithmeticMean / harmonicMean (non-negative data with exact zeros) / upwindMean (velocity with zeros and both signs) "
                "on all 9 classes, compared inside Coq with the single dimension-independent model; non-trivial = some axis N>=2 and non-constant data; "
                "impl_probe: bounds, ordering H<=G<=A, geometricMean closed form, constants, zeros, linear exactness on the real code")
    ctx.prove("C11")
    from suites import symsuite
    run_suites(ctx, ["symbolic"], runner=symsuite.run_suite, relevant=symsuite.relevant_for(['linmean', 'arithmean', 'harmmean', 'upwmean']))
    run_suites(ctx, ["means"])
    try:
        n = probes.probe_c11(ctx, pf)
        ctx.add_cases("impl_probe", n, [f"c11probe{i}" for i in range(min(n, 50))])
    except Exception:
        ctx.broke("correspondence", "impl_probe/harness", traceback.format_exc()[-1200:])


def replay(path):
    print(open(path).read()[:4000])
    return 0
