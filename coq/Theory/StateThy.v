(* C09: no stale state.  Theorems about the heap machine Model/State.v (validated against the implementation by
   operation-history correspondence, suite `state`). *)
From Coq Require Import Arith List Bool Lia.
From PFV Require Import State.
Import ListNotations.

(* ---- list updates ---- *)
Lemma length_set_nth {A} i (x : A) l : length (set_nth i x l) = length l.
Proof. revert i. induction l as [|y t IH]; intros [|j]; cbn; auto. Qed.
Lemma nth_set_nth_eq {A} i (x d : A) l : i < length l -> nth i (set_nth i x l) d = x.
Proof. revert i. induction l as [|y t IH]; intros [|j] H; cbn in *; try lia; auto. apply IH. lia. Qed.
Lemma nth_set_nth_neq {A} i j (x d : A) l : i <> j -> nth j (set_nth i x l) d = nth j l d.
Proof. revert i j. induction l as [|y t IH]; intros [|i] [|j] H; cbn; auto; try lia. Qed.

Definition nv (h : heap) := length (vars h).
Definition nb (h : heap) := length (bcs h).
Definition wf (h : heap) : Prop := forall i, i < nv h -> v_bc (getv h i) < nb h.

Lemma getv_setv_eq h i v : i < nv h -> getv (setv h i v) i = v.
Proof. intros H. unfold getv, setv. cbn. apply nth_set_nth_eq. exact H. Qed.
Lemma getv_setv_neq h i j v : i <> j -> getv (setv h i v) j = getv h j.
Proof. intros H. unfold getv, setv. cbn. apply nth_set_nth_neq. exact H. Qed.
Lemma getb_setb_eq h i b : i < nb h -> getb (setb h i b) i = b.
Proof. intros H. unfold getb, setb. cbn. apply nth_set_nth_eq. exact H. Qed.
Lemma getb_setb_neq h i j b : i <> j -> getb (setb h i b) j = getb h j.
Proof. intros H. unfold getb, setb. cbn. apply nth_set_nth_neq. exact H. Qed.
Lemma getv_setb h i j b : getv (setb h j b) i = getv h i.
Proof. reflexivity. Qed.
Lemma getb_setv h i j v : getb (setv h j v) i = getb h i.
Proof. reflexivity. Qed.
Lemma nv_setv h i v : nv (setv h i v) = nv h.
Proof. unfold nv, setv. cbn. apply length_set_nth. Qed.
Lemma nb_setb h i b : nb (setb h i b) = nb h.
Proof. unfold nb, setb. cbn. apply length_set_nth. Qed.

(* ---- apply_BCs ---- *)
Lemma apply_bcs_var_same h i : i < nv h -> wf h ->
  let v := getv h i in let b := getb h (v_bc v) in
  getv (apply_bcs h i) i = mkVar (v_int v) (v_int v, b_gver b) (if v_precalc v then Some (b_ver b) else v_cache v) (v_precalc v) (v_bc v) false.
Proof. intros Hi Hwf v b. unfold apply_bcs. fold v. fold b. rewrite getv_setb. apply getv_setv_eq. exact Hi. Qed.
Lemma apply_bcs_var_other h i j : i <> j -> getv (apply_bcs h i) j = getv h j.
Proof. intros H. unfold apply_bcs. rewrite getv_setb. apply getv_setv_neq. exact H. Qed.
Lemma apply_bcs_bc_same h i : i < nv h -> wf h ->
  let b := getb h (v_bc (getv h i)) in
  getb (apply_bcs h i) (v_bc (getv h i)) = mkBC (b_gver b) (b_ver b) false.
Proof.
  intros Hi Hwf b. unfold apply_bcs. apply getb_setb_eq. unfold nb, setv. cbn. apply Hwf. exact Hi.
Qed.
Lemma apply_bcs_bc_other h i k : k <> v_bc (getv h i) -> getb (apply_bcs h i) k = getb h k.
Proof. intros H. unfold apply_bcs. rewrite getb_setb_neq by auto. reflexivity. Qed.
Lemma apply_bcs_bver h i k : i < nv h -> wf h -> b_ver (getb (apply_bcs h i) k) = b_ver (getb h k) /\ b_gver (getb (apply_bcs h i) k) = b_gver (getb h k).
Proof.
  intros Hi Hwf. destruct (Nat.eq_dec k (v_bc (getv h i))) as [->|Hne].
  - rewrite apply_bcs_bc_same by assumption. cbn. split; reflexivity.
  - rewrite apply_bcs_bc_other by assumption. split; reflexivity.
Qed.
Lemma apply_bcs_nv h i : nv (apply_bcs h i) = nv h.
Proof. unfold apply_bcs, nv, setb, setv. cbn. apply length_set_nth. Qed.
Lemma apply_bcs_nb h i : nb (apply_bcs h i) = nb h.
Proof. unfold apply_bcs, nb, setb, setv. cbn. apply length_set_nth. Qed.
Lemma apply_bcs_vbc h i j : i < nv h -> wf h -> v_bc (getv (apply_bcs h i) j) = v_bc (getv h j).
Proof.
  intros Hi Hwf. destruct (Nat.eq_dec i j) as [<-|Hne].
  - rewrite apply_bcs_var_same by assumption. reflexivity.
  - rewrite apply_bcs_var_other by assumption. reflexivity.
Qed.

(* ===== Theorem 1: a solve assembles its boundary equations from the CURRENT content of the variable's
   BoundaryConditions object, in every heap -- whatever happened before, shared objects included.
   A freshly constructed variable on the same object (NewShared) uses the same content. ===== *)
Theorem solve_uses_current_bcs h i : i < nv h -> wf h ->
  solve_bcver false h i = Some (b_ver (getb h (v_bc (getv h i)))).
Proof.
  intros Hi Hwf. unfold solve_bcver.
  destruct (needs_refresh h i).
  - rewrite apply_bcs_vbc by assumption. destruct (apply_bcs_bver h i (v_bc (getv h i)) Hi Hwf) as [E _]. rewrite E. reflexivity.
  - reflexivity.
Qed.
Theorem solve_equals_fresh_start h i ver : i < nv h -> wf h ->
  solve_bcver false h i = solve_bcver false (step false h (NewShared (v_bc (getv h i)) ver)) (nv h).
Proof.
  intros Hi Hwf. rewrite solve_uses_current_bcs by assumption.
  set (b := v_bc (getv h i)).
  set (w := mkVar ver (ver, b_gver (getb h b)) (Some (b_ver (getb h b))) true b false).
  assert (Eh : step false h (NewShared b ver) = mkHeap (vars h ++ [w]) (bcs h) (fresh h)) by reflexivity.
  rewrite Eh. set (h' := mkHeap (vars h ++ [w]) (bcs h) (fresh h)).
  assert (E : getv h' (nv h) = w).
  { unfold getv, nv, h'. cbn. rewrite app_nth2 by lia. rewrite Nat.sub_diag. reflexivity. }
  assert (Hi' : nv h < nv h') by (unfold nv, h'; cbn; rewrite app_length; cbn; lia).
  assert (Hwf' : wf h').
  { intros j Hj. unfold nv, h' in Hj. cbn in Hj. rewrite app_length in Hj. cbn in Hj.
    destruct (Nat.eq_dec j (nv h)) as [->|Hne].
    - rewrite E. cbn. change (nb h') with (nb h). apply Hwf. exact Hi.
    - unfold getv, h'. cbn. rewrite app_nth1 by (unfold nv in *; lia). apply Hwf. unfold nv in *. lia. }
  rewrite (solve_uses_current_bcs h' (nv h) Hi' Hwf'). rewrite E. reflexivity.
Qed.

(* ===== the code before the repair (cached term trusted when no flag is set): refuted ===== *)
(* two variables share one BC object; its coefficients are edited; solving the first variable resets the shared
   flags; the second variable then assembles its system from the stale cached term *)
Example cached_term_shared_refuted :
  let h := run true (init_with 1 2 2) [NewShared 0 5; EditBC 0 7 8; Solve 0 9] in
  solve_bcver true h 1 = Some 2 /\ b_ver (getb h (v_bc (getv h 1))) = 8.
Proof. vm_compute. split; reflexivity. Qed.
(* a variable returned by the explicit solver has no cached term at all (AttributeError in the old code) *)
Example cached_term_explicit_refuted :
  let h := run true (init_with 1 2 2) [SolveExplicit 0 5] in solve_bcver true h 1 = None.
Proof. vm_compute. reflexivity. Qed.
(* the repaired code on the same histories *)
Example repaired_shared : 
  let h := run false (init_with 1 2 2) [NewShared 0 5; EditBC 0 7 8; Solve 0 9] in solve_bcver false h 1 = Some 8.
Proof. vm_compute. reflexivity. Qed.

(* ===== Theorem 2: histories in which every BoundaryConditions object belongs to one variable:
   whenever no dirty flag is set, ghost cells and cached term are up to date ===== *)
Definition sharing_free (o : op) : bool := match o with NewShared _ _ | SolveExplicit _ _ => false | _ => true end.
Definition owners_unique (h : heap) : Prop := forall i j, i < nv h -> j < nv h -> v_bc (getv h i) = v_bc (getv h j) -> i = j.
Definition clean_fresh (h : heap) : Prop :=
  forall i, i < nv h -> v_dirty (getv h i) = false -> b_dirty (getb h (v_bc (getv h i))) = false ->
  ghost_fresh h i = true /\ (v_precalc (getv h i) = true -> cache_fresh h i = Some true).
Definition Inv (h : heap) : Prop := wf h /\ owners_unique h /\ clean_fresh h.

Lemma Inv_init iv gv tv : Inv (init_with iv gv tv).
Proof.
  split; [|split].
  - intros i Hi. unfold nv, init_with in Hi. cbn in Hi. assert (i = 0) by lia. subst. cbn. lia.
  - intros i j Hi Hj _. unfold nv, init_with in *. cbn in *. lia.
  - intros i Hi _ _. unfold nv, init_with in Hi. cbn in Hi. assert (i = 0) by lia. subst.
    unfold ghost_fresh, cache_fresh. cbn. rewrite !Nat.eqb_refl. split; auto.
Qed.

(* ---- preservation ---- *)
Definition Inv_except (k : nat) (h : heap) : Prop :=
  wf h /\ owners_unique h /\
  (forall i, i < nv h -> i <> k -> v_dirty (getv h i) = false -> b_dirty (getb h (v_bc (getv h i))) = false ->
             ghost_fresh h i = true /\ (v_precalc (getv h i) = true -> cache_fresh h i = Some true)).
Lemma Inv_weaken h k : Inv h -> Inv_except k h.
Proof. intros (A & B & C). split; [exact A|split; [exact B|]]. intros i Hi _. apply C. exact Hi. Qed.

Lemma fresh_congr h h' i :
  getv h' i = getv h i -> getb h' (v_bc (getv h i)) = getb h (v_bc (getv h i)) ->
  ghost_fresh h' i = ghost_fresh h i /\ cache_fresh h' i = cache_fresh h i.
Proof. intros E1 E2. unfold ghost_fresh, cache_fresh. rewrite E1, E2. split; reflexivity. Qed.

(* replacing variable k (keeping its BC reference) keeps the invariant for all the others *)
Lemma Inv_except_setv h k v : k < nv h -> v_bc v = v_bc (getv h k) -> Inv_except k h -> Inv_except k (setv h k v).
Proof.
  intros Hk Hbc (A & B & C). split; [|split].
  - intros i Hi. rewrite nv_setv in Hi. change (nb (setv h k v)) with (nb h).
    destruct (Nat.eq_dec k i) as [<-|Hne]; [rewrite getv_setv_eq by exact Hk; rewrite Hbc; apply A; exact Hk|].
    rewrite getv_setv_neq by exact Hne. apply A. exact Hi.
  - intros i j Hi Hj. rewrite nv_setv in Hi, Hj.
    assert (E : forall x, x < nv h -> v_bc (getv (setv h k v) x) = v_bc (getv h x)).
    { intros x Hx. destruct (Nat.eq_dec k x) as [<-|Hne]; [rewrite getv_setv_eq by exact Hk; exact Hbc|rewrite getv_setv_neq by exact Hne; reflexivity]. }
    rewrite !E by assumption. apply B; assumption.
  - intros i Hi Hne. rewrite nv_setv in Hi. rewrite getv_setv_neq by auto. rewrite getb_setv. intros D1 D2.
    destruct (fresh_congr h (setv h k v) i) as [E1 E2]; [apply getv_setv_neq; auto|apply getb_setv|].
    rewrite E1, E2. apply C; assumption.
Qed.

(* apply_BCs on variable k re-establishes the full invariant *)
Lemma Inv_apply_bcs h k : k < nv h -> Inv_except k h -> Inv (apply_bcs h k).
Proof.
  intros Hk (A & B & C). split; [|split].
  - intros i Hi. rewrite apply_bcs_nv in Hi. rewrite apply_bcs_nb, apply_bcs_vbc by assumption. apply A. exact Hi.
  - intros i j Hi Hj. rewrite apply_bcs_nv in Hi, Hj. rewrite !apply_bcs_vbc by assumption. apply B; assumption.
  - intros i Hi. rewrite apply_bcs_nv in Hi. destruct (Nat.eq_dec k i) as [<-|Hne].
    + intros _ _. unfold ghost_fresh, cache_fresh. rewrite apply_bcs_var_same by assumption. cbn [v_ghost v_int v_bc v_cache v_precalc fst snd].
      rewrite apply_bcs_bc_same by assumption. cbn [b_gver b_ver]. rewrite !Nat.eqb_refl. split; [reflexivity|].
      intros Hp. rewrite Hp. rewrite Nat.eqb_refl. reflexivity.
    + rewrite apply_bcs_var_other by exact Hne.
      assert (Hbc : v_bc (getv h i) <> v_bc (getv h k)).
      { intro E. apply Hne. symmetry. apply B; assumption. }
      rewrite apply_bcs_bc_other by exact Hbc. intros D1 D2.
      destruct (fresh_congr h (apply_bcs h k) i) as [E1 E2]; [apply apply_bcs_var_other; exact Hne|apply apply_bcs_bc_other; exact Hbc|].
      rewrite E1, E2. apply C; try assumption. intro E; apply Hne; symmetry; exact E.
Qed.

(* appending a variable that owns a new (deep-copied) BC object *)
Lemma Inv_append h (w : var) (b : bcobj) :
  Inv h -> v_bc w = nb h ->
  (v_dirty w = false -> b_dirty b = false ->
     (Nat.eqb (fst (v_ghost w)) (v_int w) && Nat.eqb (snd (v_ghost w)) (b_gver b) = true) /\
     (v_precalc w = true -> match v_cache w with Some c => Some (Nat.eqb c (b_ver b)) | None => None end = Some true)) ->
  Inv (mkHeap (vars h ++ [w]) (bcs h ++ [b]) (fresh h)).
Proof.
  intros (A & B & C) Hw Hfresh. set (h' := mkHeap (vars h ++ [w]) (bcs h ++ [b]) (fresh h)).
  assert (Hnv : nv h' = S (nv h)) by (unfold nv, h'; cbn; rewrite app_length; cbn; lia).
  assert (Hnb : nb h' = S (nb h)) by (unfold nb, h'; cbn; rewrite app_length; cbn; lia).
  assert (Gold : forall i, i < nv h -> getv h' i = getv h i) by (intros i Hi; unfold getv, h'; cbn; apply app_nth1; exact Hi).
  assert (Gnew : getv h' (nv h) = w) by (unfold getv, h', nv; cbn; rewrite app_nth2 by lia; rewrite Nat.sub_diag; reflexivity).
  assert (Bold : forall j, j < nb h -> getb h' j = getb h j) by (intros j Hj; unfold getb, h'; cbn; apply app_nth1; exact Hj).
  assert (Bnew : getb h' (nb h) = b) by (unfold getb, h', nb; cbn; rewrite app_nth2 by lia; rewrite Nat.sub_diag; reflexivity).
  split; [|split].
  - intros i Hi. rewrite Hnv in Hi. rewrite Hnb. destruct (Nat.eq_dec i (nv h)) as [->|Hne].
    + rewrite Gnew, Hw. lia.
    + rewrite Gold by lia. specialize (A i ltac:(lia)). lia.
  - intros i j Hi Hj. rewrite Hnv in Hi, Hj.
    destruct (Nat.eq_dec i (nv h)) as [->|Hi'], (Nat.eq_dec j (nv h)) as [->|Hj']; try reflexivity.
    + rewrite Gnew, Gold by lia. rewrite Hw. intros E. specialize (A j ltac:(lia)). lia.
    + rewrite Gnew, Gold by lia. rewrite Hw. intros E. specialize (A i ltac:(lia)). lia.
    + rewrite !Gold by lia. apply B; lia.
  - intros i Hi. rewrite Hnv in Hi. destruct (Nat.eq_dec i (nv h)) as [->|Hne].
    + unfold ghost_fresh, cache_fresh. rewrite Gnew, Hw, Bnew. intros D1 D2. destruct (Hfresh D1 D2) as [F1 F2]. split; assumption.
    + assert (Hi' : i < nv h) by lia. rewrite (Gold i Hi'). specialize (A i Hi').
      rewrite (Bold _ A). intros D1 D2.
      destruct (fresh_congr h h' i) as [E1 E2]; [apply Gold; exact Hi'|apply Bold; exact A|].
      rewrite E1, E2. apply C; assumption.
Qed.

Theorem Inv_step h o : Inv h -> op_ok h o = true -> sharing_free o = true -> Inv (step false h o).
Proof.
  intros HI Hok Hsf. destruct o as [b gv tv|i ver|i j|i|i ver|i ver|i|i ver|b ver]; cbn [sharing_free] in Hsf; try discriminate Hsf;
    cbn [op_ok] in Hok; cbn [step].
  - (* EditBC *)
    apply Nat.ltb_lt in Hok. destruct HI as (A & B & C). split; [|split].
    + intros i Hi. change (nv (setb h b (mkBC gv tv true))) with (nv h) in Hi. rewrite nb_setb. apply A. exact Hi.
    + exact B.
    + intros i Hi. change (nv (setb h b (mkBC gv tv true))) with (nv h) in Hi. rewrite getv_setb.
      destruct (Nat.eq_dec b (v_bc (getv h i))) as [<-|Hne].
      * rewrite getb_setb_eq by exact Hok. cbn. intros _ D. discriminate D.
      * rewrite getb_setb_neq by exact Hne. intros D1 D2.
        destruct (fresh_congr h (setb h b (mkBC gv tv true)) i) as [E1 E2]; [reflexivity|apply getb_setb_neq; exact Hne|].
        rewrite E1, E2. apply C; assumption.
  - (* EditVal *)
    apply Nat.ltb_lt in Hok. pose proof (Inv_except_setv h i (mkVar ver (v_ghost (getv h i)) (v_cache (getv h i)) (v_precalc (getv h i)) (v_bc (getv h i)) true) Hok eq_refl (Inv_weaken h i HI)) as (A & B & C).
    split; [exact A|split; [exact B|]]. intros k Hk. destruct (Nat.eq_dec k i) as [->|Hne].
    + rewrite getv_setv_eq by exact Hok. cbn. intros D. discriminate D.
    + apply C; assumption.
  - (* UpdateValue *)
    apply andb_true_iff in Hok. destruct Hok as [Hi Hj]. apply Nat.ltb_lt in Hi.
    pose proof (Inv_except_setv h i (mkVar (v_int (getv h j)) (v_ghost (getv h j)) (v_cache (getv h i)) (v_precalc (getv h i)) (v_bc (getv h i)) true) Hi eq_refl (Inv_weaken h i HI)) as (A & B & C).
    split; [exact A|split; [exact B|]]. intros k Hk. destruct (Nat.eq_dec k i) as [->|Hne].
    + rewrite getv_setv_eq by exact Hi. cbn. intros D. discriminate D.
    + apply C; assumption.
  - (* ApplyBCs *)
    apply Nat.ltb_lt in Hok. apply Inv_apply_bcs; [exact Hok|apply Inv_weaken; exact HI].
  - (* Solve *)
    apply Nat.ltb_lt in Hok.
    set (h1 := if needs_refresh h i then apply_bcs h i else h).
    assert (I1 : Inv h1).
    { unfold h1. destruct (needs_refresh h i); [apply Inv_apply_bcs; [exact Hok|apply Inv_weaken; exact HI]|exact HI]. }
    assert (Hk1 : i < nv h1) by (unfold h1; destruct (needs_refresh h i); [rewrite apply_bcs_nv|]; exact Hok).
    apply Inv_apply_bcs; [rewrite nv_setv; exact Hk1|].
    apply Inv_except_setv; [exact Hk1|reflexivity|apply Inv_weaken; exact I1].
  - (* Copy *)
    apply Nat.ltb_lt in Hok. apply Inv_append; [exact HI|reflexivity|].
    cbn [v_dirty v_ghost v_int v_precalc v_cache]. intros D1 D2.
    destruct HI as (A & B & C). destruct (C i Hok D1 D2) as [F1 F2]. split.
    + exact F1.
    + intros _. rewrite Nat.eqb_refl. reflexivity.
  - (* Arith *)
    apply Nat.ltb_lt in Hok. apply Inv_append; [exact HI|reflexivity|].
    cbn [v_dirty v_ghost v_int v_precalc v_cache fst snd]. intros _ _. rewrite !Nat.eqb_refl. split; [reflexivity|intros _; reflexivity].
Qed.

Fixpoint ops_ok (h : heap) (ops : list op) : bool :=
  match ops with [] => true | o :: ops' => op_ok h o && sharing_free o && ops_ok (step false h o) ops' end.
Theorem Inv_histories iv gv tv ops : ops_ok (init_with iv gv tv) ops = true -> Inv (run false (init_with iv gv tv) ops).
Proof.
  generalize (Inv_init iv gv tv). generalize (init_with iv gv tv). unfold run.
  induction ops as [|o ops IH]; intros h HI Hok; cbn [fold_left ops_ok] in *; [exact HI|].
  apply andb_true_iff in Hok. destruct Hok as [Hok Hrest]. apply andb_true_iff in Hok. destruct Hok as [H1 H2].
  apply IH; [apply Inv_step; assumption|exact Hrest].
Qed.

(* with a shared BoundaryConditions object the flag protocol cannot keep ghost cells up to date: after the other
   variable's solve the flags are clean while this variable's ghost cells are outdated -- but its next solve is
   unaffected (Theorem 1) *)
Example shared_ghost_stale :
  let h := run false (init_with 1 2 2) [NewShared 0 5; EditBC 0 7 8; Solve 0 9] in
  v_dirty (getv h 1) = false /\ b_dirty (getb h (v_bc (getv h 1))) = false /\ ghost_fresh h 1 = false
  /\ solve_bcver false h 1 = Some 8.
Proof. vm_compute. repeat split; reflexivity. Qed.

(* ===== every consumer refreshes: after apply_BCs, solvePDE or solveExplicitPDE on variable i its ghost cells are computed from its
   current interior values and the current content of its BoundaryConditions object -- in EVERY heap, shared objects included
   (for the explicit solver this is the repair: it used to trust the dirty flags, which a shared object's other user can reset) ===== *)
Lemma apply_bcs_ghost_fresh h i : i < nv h -> wf h -> ghost_fresh (apply_bcs h i) i = true.
Proof.
  intros Hi Hwf. unfold ghost_fresh. rewrite apply_bcs_var_same by assumption. cbn [v_ghost v_int v_bc fst snd].
  destruct (apply_bcs_bver h i (v_bc (getv h i)) Hi Hwf) as [_ E]. rewrite E, !Nat.eqb_refl. reflexivity.
Qed.
Theorem explicit_refreshes_input uc h i ver : i < nv h -> wf h ->
  ghost_fresh (step uc h (SolveExplicit i ver)) i = true /\ ghost_fresh (step uc h (SolveExplicit i ver)) (nv h) = true.
Proof.
  intros Hi Hwf. cbn [step].
  set (h1 := apply_bcs h i).
  set (w := mkVar ver (0, 0) None false (v_bc (getv h1 i)) false).
  set (h2 := mkHeap (vars h1 ++ [w]) (bcs h1) (fresh h1)).
  assert (Hn1 : nv h1 = nv h) by apply apply_bcs_nv.
  assert (Hlen : length (vars h1) = nv h) by exact Hn1.
  rewrite Hlen.
  assert (E2 : getv h2 (nv h) = w).
  { unfold getv, h2. cbn [vars]. rewrite app_nth2 by lia. rewrite Hlen, Nat.sub_diag. reflexivity. }
  assert (E2i : getv h2 i = getv h1 i).
  { unfold getv, h2. cbn [vars]. rewrite app_nth1 by lia. reflexivity. }
  assert (Hwf1 : wf h1).
  { intros j Hj. rewrite Hn1 in Hj. unfold h1. rewrite apply_bcs_vbc by assumption. rewrite apply_bcs_nb. apply Hwf. exact Hj. }
  assert (Hi2 : nv h < nv h2) by (unfold h2; unfold nv in *; cbn [vars]; rewrite app_length; cbn [length]; lia).
  assert (Hwf2 : wf h2).
  { intros j Hj. unfold nv, h2 in Hj. cbn [vars] in Hj. rewrite app_length in Hj. cbn [length] in Hj. change (nb h2) with (nb h1).
    destruct (Nat.eq_dec j (nv h)) as [->|Hne].
    - rewrite E2. cbn [v_bc w]. unfold w. cbn [v_bc]. apply Hwf1. lia.
    - unfold getv, h2. cbn [vars]. rewrite app_nth1 by lia. apply Hwf1. unfold nv. lia. }
  split.
  - (* the input variable: refreshed by the first apply_BCs, untouched by the second (same BC content) *)
    unfold ghost_fresh. rewrite apply_bcs_var_other by lia. rewrite E2i.
    destruct (apply_bcs_bver h2 (nv h) (v_bc (getv h1 i)) Hi2 Hwf2) as [_ G]. rewrite G.
    change (getb h2 (v_bc (getv h1 i))) with (getb h1 (v_bc (getv h1 i))).
    pose proof (apply_bcs_ghost_fresh h i Hi Hwf) as F. unfold ghost_fresh in F. fold h1 in F. exact F.
  - apply apply_bcs_ghost_fresh; assumption.
Qed.
