(* C03 — Reported boundary values satisfy the configured boundary conditions. *)
From Coq Require Import Arith List ZArith QArith Qcanon.
From PFV Require Import OField KOps Grid Ops Boundary Solver StencilThy BoundaryThy SolverThy.

(* what every one of construction / apply_BCs / solvePDE / solveExplicitPDE stores is with_boundaries(...)
   (checked against the code by the suites bc_ghost, solve, explicit, state); those stored values satisfy,
   face by face and for arbitrary coefficient arrays, a/h*(difference) + b*(face average) = c *)
Theorem C03_stored_values_robin_hi : forall (F : FieldOps) (L : FieldLaws F) (m : Mesh F) (bc : BCs F) (phi : cvar F) a g,
  ghost_axis F m g = Some (a, true) -> interior F m g = false -> interior F m (cdn a g) = true ->
  bper F bc a = false -> kadd F (aoh F m bc a true g) (kdiv F (bcb F bc a true g) (kadd F (k1 F) (k1 F))) <> k0 F ->
  robin_hi F m bc (with_boundaries F m bc phi) a g.
Proof. exact stored_values_robin_hi. Qed.
Print Assumptions C03_stored_values_robin_hi.
Theorem C03_stored_values_robin_lo : forall (F : FieldOps) (L : FieldLaws F) (m : Mesh F) (bc : BCs F) (phi : cvar F) a g,
  ghost_axis F m g = Some (a, false) -> interior F m g = false -> interior F m (cup a g) = true ->
  bper F bc a = false -> kadd F (kopp F (aoh F m bc a false g)) (kdiv F (bcb F bc a false g) (kadd F (k1 F) (k1 F))) <> k0 F ->
  robin_lo F m bc (with_boundaries F m bc phi) a g.
Proof. exact stored_values_robin_lo. Qed.
Print Assumptions C03_stored_values_robin_lo.

(* the solver's boundary rows encode the same relation *)
Theorem C03_row_is_robin_hi : forall (F : FieldOps) (L : FieldLaws F) (m : Mesh F) (bc : BCs F) (x : cvar F) a g,
  kadd F (kmul F (kadd F (kdiv F (bcb F bc a true g) (kadd F (k1 F) (k1 F))) (aoh F m bc a true g)) (x g))
         (kmul F (ksub F (kdiv F (bcb F bc a true g) (kadd F (k1 F) (k1 F))) (aoh F m bc a true g)) (x (cdn a g)))
  = bcc F bc a true g <-> robin_hi F m bc x a g.
Proof. exact row_is_robin_hi. Qed.
Print Assumptions C03_row_is_robin_hi.
Theorem C03_row_is_robin_lo : forall (F : FieldOps) (L : FieldLaws F) (m : Mesh F) (bc : BCs F) (x : cvar F) a g,
  kadd F (kmul F (kopp F (kadd F (kdiv F (bcb F bc a false g) (kadd F (k1 F) (k1 F))) (aoh F m bc a false g))) (x (cup a g)))
         (kmul F (kopp F (ksub F (kdiv F (bcb F bc a false g) (kadd F (k1 F) (k1 F))) (aoh F m bc a false g))) (x g))
  = kopp F (bcc F bc a false g) <-> robin_lo F m bc x a g.
Proof. exact row_is_robin_lo. Qed.
Print Assumptions C03_row_is_robin_lo.

Theorem C03_scale_invariant : forall (F : FieldOps) (L : FieldLaws F) (m : Mesh F) (bc : BCs F) (phi : cvar F) (lam : F) a (hi : bool) g,
  lam <> k0 F -> mDX F m a (cidx a g) <> k0 F ->
  (if hi then kadd F (aoh F m bc a hi g) (kdiv F (bcb F bc a hi g) (kadd F (k1 F) (k1 F))) <> k0 F
         else kadd F (kopp F (aoh F m bc a hi g)) (kdiv F (bcb F bc a hi g) (kadd F (k1 F) (k1 F))) <> k0 F) ->
  ghost_value F m (scale_bc F lam bc) phi a hi g = ghost_value F m bc phi a hi g.
Proof. exact ghost_scale_invariant. Qed.
Print Assumptions C03_scale_invariant.

Theorem C03_periodic_wrap : forall (F : FieldOps) (m : Mesh F) (bc : BCs F) (phi : cvar F) a g,
  bper F bc a = true ->
  ghost_value F m bc phi a true g = phi (cset a g 1) /\ ghost_value F m bc phi a false g = phi (cset a g (mN F m a)).
Proof. exact ghost_periodic_wrap. Qed.
Print Assumptions C03_periodic_wrap.

(* the solver's periodic rows vs the wrap: consistent iff the end cells have equal size or equal values *)
Theorem C03_periodic_rows_vs_wrap : forall (F : FieldOps) (L : FieldLaws F) (m : Mesh F) (p1 pN r : F),
  ksub F (ksub F (kadd F pN p1) pN) p1 = k0 F /\
  kadd F (ksub F p1 pN) (kmul F r (ksub F pN p1)) = kmul F (ksub F (k1 F) r) (ksub F p1 pN).
Proof. intros F L m p1 pN r. exact (periodic_rows_vs_wrap F L m p1 pN r). Qed.
Print Assumptions C03_periodic_rows_vs_wrap.

(* two fields satisfying the same non-periodic boundary rows differ across every boundary face by z_ghost = rho * z_inner, rho <= 1;
   every neighbour of an interior cell is an interior cell or such a face ghost cell (Theory/ClosureThy.v) *)
From Coq Require Import Reals.
From PFV Require Import ConservThy MaxPrincipleThy MaxPrincipleModel ComparisonThy ClosureThy.
Theorem C03_closure_from_rows : forall (m : Mesh ROps) (bc : BCs ROps) (x e : cvar ROps),
  bc_sign_ok m bc -> bc_rows m bc x -> bc_rows m bc e ->
  forall c a, In c (interior_cells ROps m) -> In a (active_axes ROps m) ->
    nb_homog (interior_cells ROps m) (fun c => (x c - e c)%R) c (cdn a c) /\
    nb_homog (interior_cells ROps m) (fun c => (x c - e c)%R) c (cup a c).
Proof. exact closure_from_rows. Qed.
Theorem C03_numbering_round_trip : forall (F : FieldOps) (m : Mesh F) (c : cell), wfcell F m c -> cell_of_no F m (cellno F m c) = c.
Proof. exact cell_of_no_cellno. Qed.
Print Assumptions C03_closure_from_rows.
Print Assumptions C03_numbering_round_trip.

(* ---- the plot profile (CellVariable.plotprofile, session 3): at a boundary face it reports the face average of the stored values, which
   therefore satisfies the configured relation together with the stored difference quotient, and IS the Dirichlet value c / b when a = 0.
   The code's plotprofile is tied to plot_profile by the symbolic suite (profile_* lemmas, all nine classes). ---- *)
Theorem C03_profile_robin_hi : forall (F : FieldOps) (L : FieldLaws F) (m : Mesh F) (bc : BCs F) (phi : cvar F) a g,
  ghost_axis F m g = Some (a, true) -> Grid.interior F m g = false -> Grid.interior F m (cdn a g) = true ->
  bper F bc a = false -> kadd F (aoh F m bc a true g) (kdiv F (bcb F bc a true g) (kadd F (k1 F) (k1 F))) <> k0 F ->
  let X := with_boundaries F m bc phi in
  kadd F (kmul F (aoh F m bc a true g) (ksub F (X g) (X (cdn a g)))) (kmul F (bcb F bc a true g) (plot_profile F m X g)) = bcc F bc a true g.
Proof. exact profile_robin_hi. Qed.
Theorem C03_profile_robin_lo : forall (F : FieldOps) (L : FieldLaws F) (m : Mesh F) (bc : BCs F) (phi : cvar F) a g,
  ghost_axis F m g = Some (a, false) -> Grid.interior F m g = false -> Grid.interior F m (cup a g) = true ->
  bper F bc a = false -> kadd F (kopp F (aoh F m bc a false g)) (kdiv F (bcb F bc a false g) (kadd F (k1 F) (k1 F))) <> k0 F ->
  let X := with_boundaries F m bc phi in
  kadd F (kmul F (aoh F m bc a false g) (ksub F (X (cup a g)) (X g))) (kmul F (bcb F bc a false g) (plot_profile F m X g)) = bcc F bc a false g.
Proof. exact profile_robin_lo. Qed.
Theorem C03_profile_dirichlet_hi : forall (F : FieldOps) (L : FieldLaws F) (m : Mesh F) (bc : BCs F) (phi : cvar F) a g,
  ghost_axis F m g = Some (a, true) -> Grid.interior F m g = false -> Grid.interior F m (cdn a g) = true ->
  bper F bc a = false -> aoh F m bc a true g = k0 F -> bcb F bc a true g <> k0 F ->
  plot_profile F m (with_boundaries F m bc phi) g = kdiv F (bcc F bc a true g) (bcb F bc a true g).
Proof. exact profile_dirichlet_hi. Qed.
Theorem C03_profile_dirichlet_lo : forall (F : FieldOps) (L : FieldLaws F) (m : Mesh F) (bc : BCs F) (phi : cvar F) a g,
  ghost_axis F m g = Some (a, false) -> Grid.interior F m g = false -> Grid.interior F m (cup a g) = true ->
  bper F bc a = false -> aoh F m bc a false g = k0 F -> bcb F bc a false g <> k0 F ->
  plot_profile F m (with_boundaries F m bc phi) g = kdiv F (bcc F bc a false g) (bcb F bc a false g).
Proof. exact profile_dirichlet_lo. Qed.
Print Assumptions C03_profile_robin_hi.
Print Assumptions C03_profile_robin_lo.
Print Assumptions C03_profile_dirichlet_hi.
Print Assumptions C03_profile_dirichlet_lo.
