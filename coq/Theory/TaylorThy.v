(* Consistency for arbitrary smooth functions (the Taylor remainder of the second difference), over R with Coquelicot's
   Taylor-Lagrange formula; and its form for the model's diffusion stencil on a uniform Cartesian axis. *)
From Coq Require Import Reals Lra Lia.
From Coquelicot Require Import Coquelicot.
From PFV Require Import OField KOps Grid Ops ExactnessThy.
Local Open Scope R_scope.

Section Taylor.
Local Opaque Derive_n.
Variable f : R -> R.
Hypothesis smooth : forall t k, (k <= 4)%nat -> ex_derive_n f k t.

Lemma taylor_forward x h : 0 < h -> exists z, x < z < x + h /\
  f (x + h) = f x + h * Derive_n f 1 x + h * h / 2 * Derive_n f 2 x + h * h * h / 6 * Derive_n f 3 x
              + h * h * h * h / 24 * Derive_n f 4 z.
Proof.
  intro Hh.
  destruct (Taylor_Lagrange f 3 x (x + h)) as (z & Hz & E); [lra| intros t _ k Hk; apply smooth; exact Hk |].
  exists z. split; [exact Hz|]. rewrite E. replace (x + h - x) with h by ring. cbn [sum_f_R0 fact INR pow Nat.mul Nat.add]. change (Derive_n f 0 x) with (f x). simpl INR. field.
Qed.

Lemma taylor_backward x h : 0 < h -> exists z, x - h < z < x /\
  f (x - h) = f x - h * Derive_n f 1 x + h * h / 2 * Derive_n f 2 x - h * h * h / 6 * Derive_n f 3 x
              + h * h * h * h / 24 * Derive_n f 4 z.
Proof.
  intro Hh. set (g := fun t => f (- t)).
  assert (Dg : forall k t, (k <= 4)%nat -> Derive_n g k t = (-1) ^ k * Derive_n f k (- t)).
  { intros k t Hk. unfold g. apply Derive_n_comp_opp. apply filter_forall. intros y j Hj. apply smooth. lia. }
  assert (Eg : forall t k, (k <= 4)%nat -> ex_derive_n g k t).
  { intros t k Hk. unfold g. apply ex_derive_n_comp_opp. apply filter_forall. intros y j Hj. apply smooth. lia. }
  destruct (Taylor_Lagrange g 3 (- x) (- x + h)) as (z & Hz & E); [lra| intros t _ k Hk; apply Eg; exact Hk |].
  exists (- z). split; [lra|].
  assert (G : g (- x + h) = f (x - h)) by (unfold g; f_equal; ring).
  rewrite <- G, E. replace (- x + h - - x) with h by ring. cbn [sum_f_R0 fact INR pow Nat.mul Nat.add]. rewrite !Dg by lia. rewrite !Ropp_involutive. change (Derive_n f 0 x) with (f x). simpl INR. simpl pow. field.
Qed.

Theorem second_difference_remainder x h M : 0 < h ->
  (forall t, x - h < t < x + h -> Rabs (Derive_n f 4 t) <= M) ->
  Rabs ((f (x + h) - 2 * f x + f (x - h)) / (h * h) - Derive_n f 2 x) <= M * (h * h) / 12.
Proof.
  intros Hh HM.
  destruct (taylor_forward x h Hh) as (z1 & Hz1 & E1). destruct (taylor_backward x h Hh) as (z2 & Hz2 & E2).
  rewrite E1, E2.
  replace ((f x + h * Derive_n f 1 x + h * h / 2 * Derive_n f 2 x + h * h * h / 6 * Derive_n f 3 x + h * h * h * h / 24 * Derive_n f 4 z1
            - 2 * f x
            + (f x - h * Derive_n f 1 x + h * h / 2 * Derive_n f 2 x - h * h * h / 6 * Derive_n f 3 x + h * h * h * h / 24 * Derive_n f 4 z2))
           / (h * h) - Derive_n f 2 x)
    with (h * h / 24 * (Derive_n f 4 z1 + Derive_n f 4 z2)) by (field; lra).
  assert (B1 := HM z1 ltac:(lra)). assert (B2 := HM z2 ltac:(lra)).
  rewrite Rabs_mult. rewrite (Rabs_pos_eq (h * h / 24)) by (apply Rmult_le_pos; [apply Rmult_le_pos; lra|lra]).
  assert (Rabs (Derive_n f 4 z1 + Derive_n f 4 z2) <= M + M) as B by (eapply Rle_trans; [apply Rabs_triang|lra]).
  assert (0 <= h * h / 24) by (apply Rmult_le_pos; [apply Rmult_le_pos; lra|lra]).
  eapply Rle_trans; [apply Rmult_le_compat_l; [assumption|exact B]|]. right. field.
Qed.
End Taylor.

(* the model's diffusion stencil along a uniform Cartesian axis (A = 1, W = h, fac = 1, constant d), applied to the samples of a
   smooth function at xi - h, xi, xi + h:  | stencil - d f''(xi) | <= |d| max|f''''| h^2 / 12  (second-order consistency) *)
Theorem taylor_cartesian_axis (f : R -> R) (m : Mesh ROps) (a : axis) (c : cell) (h xi d M : R) (D : fvar ROps) (x : cvar ROps) :
  (forall t k, (k <= 4)%nat -> ex_derive_n f k t) ->
  0 < h -> mdxf ROps m a (cidx a c) = h /\ mdxf ROps m a (pred (cidx a c)) = h ->
  D a c = d /\ D a (cdn a c) = d ->
  x (cdn a c) = f (xi - h) /\ x c = f xi /\ x (cup a c) = f (xi + h) ->
  mfac ROps m a c = 1 -> mA ROps m a (cidx a c) = 1 -> mA ROps m a (pred (cidx a c)) = 1 -> mW ROps m a (cidx a c) = h ->
  (forall t, xi - h < t < xi + h -> Rabs (Derive_n f 4 t) <= M) ->
  Rabs (apply_axis ROps (diffAW ROps m D) (diffAP ROps m D) (diffAE ROps m D) x a c - d * Derive_n f 2 xi)
  <= Rabs d * (M * (h * h) / 12).
Proof.
  intros Sm Hh [E1 E0] [D1 D0] (X0 & X1 & X2) Hf HA1 HA0 HW HM.
  rewrite (diffusion_axis_form ROps RLaws m D x a c) by (rewrite ?HW, ?E1, ?E0; cbn; lra).
  rewrite Hf, HA1, HA0, HW, E1, E0, D1, D0, X0, X1, X2. cbn [kadd kmul ksub kdiv ROps k0 k1 K].
  replace (1 * 1 / h * (1 * d * (f (xi + h) - f xi) / h - 1 * d * (f xi - f (xi - h)) / h) - d * Derive_n f 2 xi)
    with (d * ((f (xi + h) - 2 * f xi + f (xi - h)) / (h * h) - Derive_n f 2 xi)) by (field; lra).
  rewrite Rabs_mult. apply Rmult_le_compat_l; [apply Rabs_pos|].
  apply second_difference_remainder; assumption.
Qed.

(* ---- a convergence theorem: consistency (Taylor) x stability (comparison principle) on a uniform Cartesian axis ----
   Grid1D, uniform spacing h, constant diffusivity d >= 0, no advection, kap = alpha/dt + beta >= k0 > 0, the closure of the
   error x - e across the ends of the cell range given by `nb_homog` (periodic wrap, or any boundary rows that both the discrete
   solution and the sampled exact solution satisfy exactly).  Then  max |x_i - f(xi_i)| <= d max|f''''| h^2 / (12 k0). *)
From Coq Require Import List.
From PFV Require Import StencilThy ConservThy MaxPrincipleThy MaxPrincipleModel ComparisonThy.
Import ListNotations.

Lemma upwind_axis_zero (m : Mesh ROps) (u : fvar ROps) (x : cvar ROps) a c :
  (forall a c, u a c = 0) -> apply_axis ROps (upwAW ROps m u u) (upwAP ROps m u u) (upwAE ROps m u u) x a c = 0.
Proof.
  intro Hu. unfold apply_axis, upwAW, upwAP, upwAE, umax, umin, half_if. rewrite !Hu.
  cbn [kadd kmul ksub kdiv kopp kltb ROps k0 k1 K].
  repeat match goal with |- context [if ?b then _ else _] => destruct b end; unfold Rdiv; ring.
Qed.

Theorem convergence_cartesian_1D (f : R -> R) (m : Mesh ROps) (D u : fvar ROps) (kap x : cvar ROps) (xi : cell -> R)
  (cells : list cell) (h d M k0' : R) :
  mcls ROps m = G1 ->
  cells <> [] ->
  (forall c a, In c cells -> In a (active_axes ROps m) -> (1 <= cidx a c <= mN ROps m a)%nat /\ signs_ok m D c a) ->
  (forall a c, u a c = 0) ->
  0 < h -> 0 <= d -> 0 < k0' -> (forall c, In c cells -> k0' <= kap c) ->
  (forall c, In c cells ->
     mdxf ROps m AX (cidx AX c) = h /\ mdxf ROps m AX (pred (cidx AX c)) = h /\ mfac ROps m AX c = 1 /\
     mA ROps m AX (cidx AX c) = 1 /\ mA ROps m AX (pred (cidx AX c)) = 1 /\ mW ROps m AX (cidx AX c) = h /\
     D AX c = d /\ D AX (cdn AX c) = d) ->
  (forall t k, (k <= 4)%nat -> ex_derive_n f k t) ->
  (forall t, Rabs (Derive_n f 4 t) <= M) ->
  (forall c, In c cells -> xi (cup AX c) = xi c + h /\ xi (cdn AX c) = xi c - h) ->
  (* the discrete equations: kap x - d Laplace_h x = kap f - d f''  in every cell *)
  (forall c, In c cells -> Lrow m D u kap x c = kap c * f (xi c) - d * Derive_n f 2 (xi c)) ->
  (forall c a, In c cells -> In a (active_axes ROps m) ->
     nb_homog cells (fun c => x c - f (xi c)) c (cdn a c) /\ nb_homog cells (fun c => x c - f (xi c)) c (cup a c)) ->
  forall c, In c cells -> Rabs (x c - f (xi c)) <= d * (M * (h * h) / 12) / k0'.
Proof.
  intros Hcls Hne Hcells Hu Hh Hd Hk Hkap Huni Sm HM Hxi Hrow Hnb c Hc.
  set (e := fun c => f (xi c)).
  set (s := fun c => kap c * f (xi c) - d * Derive_n f 2 (xi c)).
  assert (Hdiv : forall c, In c cells -> rsuml (fun a => divrow ROps m u a c) (active_axes ROps m) = 0).
  { intros c0 _. unfold active_axes. rewrite Hcls. cbn. unfold divrow. rewrite !Hu.
    cbn [kadd kmul ksub kdiv ROps k0 k1 K]. unfold Rdiv. ring. }
  assert (MB : 0 <= M) by (eapply Rle_trans; [apply Rabs_pos|apply (HM 0)]).
  apply (error_bounded_by_truncation m D u cells Hne Hcells Hdiv kap s x e (fun c => Lrow m D u kap e c - s c) (d * (M * (h * h) / 12)) k0').
  - apply Rmult_le_pos; [exact Hd|]. apply Rmult_le_pos; [apply Rmult_le_pos; [exact MB|apply Rmult_le_pos; lra]|lra].
  - exact Hk.
  - exact Hkap.
  - exact Hrow.
  - intros c0 _. ring.
  - intros c0 Hc0. destruct (Huni c0 Hc0) as (E1 & E0 & Hf & HA1 & HA0 & HW & D1 & D0). destruct (Hxi c0 Hc0) as [Xu Xd].
    unfold Lrow, s, active_axes. rewrite Hcls. cbn [axes_of gdim map fold_right rsuml]. unfold rsuml. cbn [map fold_right].
    unfold axis_term. rewrite upwind_axis_zero by exact Hu.
    replace (kap c0 * e c0 + (- apply_axis ROps (diffAW ROps m D) (diffAP ROps m D) (diffAE ROps m D) e AX c0 + 0 + 0)
             - (kap c0 * f (xi c0) - d * Derive_n f 2 (xi c0)))
      with (- (apply_axis ROps (diffAW ROps m D) (diffAP ROps m D) (diffAE ROps m D) e AX c0 - d * Derive_n f 2 (xi c0)))
      by (unfold e; ring).
    rewrite Rabs_Ropp. rewrite <- (Rabs_pos_eq d Hd) at 2.
    apply (taylor_cartesian_axis f m AX c0 h (xi c0) d M D e Sm Hh (conj E1 E0) (conj D1 D0)); try assumption.
    + unfold e. rewrite Xu, Xd. auto.
    + intros t _. apply HM.
  - exact Hnb.
  - exact Hc.
Qed.

(* the hypotheses of convergence_cartesian_1D are satisfiable: the one-cell mesh [0,1] (h = 1), d = 1, kap = 1, f(t) = t^2 sampled at the
   cell centre and the two ghost centres (-1/2, 1/2, 3/2); the discrete equation holds exactly (the scheme is exact on quadratics) *)
Definition exxi : cell -> R := fun c => INR (fst (fst c)) - 1 / 2.
Definition exf : R -> R := fun t => t ^ 2.
Example convergence_hyps_satisfiable :
  let cells := [(1, 0, 0)%nat] in
  let x := fun c => exf (exxi c) in
  mcls ROps exR = G1 /\ cells <> [] /\
  (forall c a, In c cells -> In a (active_axes ROps exR) -> (1 <= cidx a c <= mN ROps exR a)%nat /\ signs_ok exR exD c a) /\
  (forall a c, exu a c = 0) /\
  (forall c, In c cells ->
     mdxf ROps exR AX (cidx AX c) = 1 /\ mdxf ROps exR AX (pred (cidx AX c)) = 1 /\ mfac ROps exR AX c = 1 /\
     mA ROps exR AX (cidx AX c) = 1 /\ mA ROps exR AX (pred (cidx AX c)) = 1 /\ mW ROps exR AX (cidx AX c) = 1 /\
     exD AX c = 1 /\ exD AX (cdn AX c) = 1) /\
  (forall t k, (k <= 4)%nat -> ex_derive_n exf k t) /\
  (forall t, Rabs (Derive_n exf 4 t) <= 0) /\
  (forall c, In c cells -> exxi (cup AX c) = exxi c + 1 /\ exxi (cdn AX c) = exxi c - 1) /\
  (forall c, In c cells -> Lrow exR exD exu (fun _ => 1) x c = 1 * exf (exxi c) - 1 * Derive_n exf 2 (exxi c)) /\
  (forall c a, In c cells -> In a (active_axes ROps exR) ->
     nb_homog cells (fun c => x c - exf (exxi c)) c (cdn a c) /\ nb_homog cells (fun c => x c - exf (exxi c)) c (cup a c)).
Proof.
  cbv zeta. split; [reflexivity|]. split; [discriminate|].
  split; [exact (proj1 (proj2 comparison_hyps_satisfiable))|].
  split; [reflexivity|].
  split. { intros c [<-|[]]. cbn. unfold exD. repeat split; try reflexivity; lra. }
  split. { intros t k _. apply ex_derive_n_pow. }
  split. { intros t. unfold exf. rewrite Derive_n_pow_bigi by lia. rewrite Rabs_R0. lra. }
  split. { intros c [<-|[]]. unfold exxi. cbn. split; lra. }
  split.
  { intros c [<-|[]]. unfold exf at 3. rewrite Derive_n_pow_smalli by lia.
    unfold Lrow, rsuml, axis_term, apply_axis. cbn. rewrite !exu_max, !exu_min. unfold exD, exf, exxi. cbn. field_simplify. lra. }
  intros c a [<-|[]] [<-|[]]. split; right; right; exists 0; split; try lra; ring.
Qed.
