"""C06 - constants."""
import traceback
import lib
from common import run_suites
import probes

SUITES = ["diffusion", "conv_central", "conv_upwind", "tvd", "divergence"]


def run(ctx):
    import pyfvtool as pf
    ctx.rule = ("operator suites as for C05; impl_probe: builders applied to constant fields on graded meshes with random-sign u, "
                "sources-only solve; non-trivial = N>=2 on some axis and non-constant coefficients")
    ctx.prove("C06")
    from suites import symsuite
    run_suites(ctx, ["symbolic"], runner=symsuite.run_suite, relevant=symsuite.relevant_for(['diffusion', 'central', 'upwind', 'tvd', 'tvdfsarg']))
    run_suites(ctx, SUITES)
    try:
        n = probes.probe_c06(ctx, pf)
        ctx.add_cases("impl_probe", n, [f"c06probe{i}" for i in range(min(n, 50))])
    except Exception:
        ctx.broke("correspondence", "impl_probe/harness", traceback.format_exc()[-1200:])


def replay(path):
    print(open(path).read()[:4000])
    return 0
