(* C06 — Uniform fields stay uniform: constants are diffusion-free and advect as c*div(u). *)
From Coq Require Import Arith List ZArith QArith Qcanon.
From PFV Require Import OField KOps Grid Ops StencilThy ConservThy MeasureThy TermsThy Examples.

Theorem C06_diffusion_const : forall (F : FieldOps) (L : FieldLaws F) (m : Mesh F) (D : fvar F) (k : F) a c,
  apply_axis F (diffAW F m D) (diffAP F m D) (diffAE F m D) (fun _ => k) a c = k0 F.
Proof. exact diffusion_of_constant. Qed.
Print Assumptions C06_diffusion_const.

Theorem C06_central_const : forall (F : FieldOps) (L : FieldLaws F) (m : Mesh F) (u : fvar F) (k : F) a c,
  (1 <= cidx a c)%nat ->
  mW F m a (cidx a c) <> k0 F -> mDX F m a (cidx a c) <> k0 F ->
  kadd F (mDX F m a (cidx a c)) (mDX F m a (S (cidx a c))) <> k0 F ->
  kadd F (mDX F m a (cidx a c)) (mDX F m a (pred (cidx a c))) <> k0 F ->
  apply_axis F (cenAW F m u) (cenAP F m u) (cenAE F m u) (fun _ => k) a c = kmul F k (divrow F m u a c).
Proof. exact central_of_constant. Qed.
Print Assumptions C06_central_const.

Theorem C06_upwind_const : forall (F : FieldOps) (L : FieldLaws F) (m : Mesh F) (u uup : fvar F) (k : F) a c,
  (1 <= cidx a c)%nat -> (cidx a c <= mN F m a)%nat -> mW F m a (cidx a c) <> k0 F ->
  (uup a c = k0 F -> u a c = k0 F) -> (uup a (cdn a c) = k0 F -> u a (cdn a c) = k0 F) ->
  apply_axis F (upwAW F m u uup) (upwAP F m u uup) (upwAE F m u uup) (fun _ => k) a c = kmul F k (divrow F m u a c).
Proof. exact upwind_of_constant. Qed.
Print Assumptions C06_upwind_const.

Theorem C06_tvd_const : forall (F : FieldOps) (L : FieldLaws F) (fsgn FLm : F -> F) (m : Mesh F) (u uup : fvar F) (k : F) a c,
  tvdrow F fsgn FLm m u uup (fun _ => k) a c = k0 F.
Proof. exact tvd_of_constant. Qed.
Print Assumptions C06_tvd_const.
