(* C08: mirroring a Cartesian grid along one axis mirrors the discrete operators.
   Mirror along axis a0 of a Cartesian mesh with N >= 1 cells on it: face positions x'_f = - x_(N-f), cell index i -> N+1-i,
   face index f -> N-f, cell fields mirrored, the a0-component of a face field mirrored (and NEGATED for a velocity), the other
   components mirrored as cell-like data.  Then in the mirrored cell the mirrored stencils give what the original stencils give
   in the original cell: diffusion, central and upwind advection (east and west coefficients swap, the diagonal is kept). *)
From Coq Require Import Arith List Bool Field Lia.
From PFV Require Import OField KOps Grid Ops StencilThy ConservThy PermThy.
Import ListNotations.

Lemma axis_eqb_eq a b : axis_eqb a b = true <-> a = b.
Proof. destruct a, b; cbn; split; intros H; try reflexivity; try discriminate. Qed.
Lemma axis_eqb_refl a : axis_eqb a a = true.
Proof. destruct a; reflexivity. Qed.
Lemma axis_eqb_neq a b : a <> b -> axis_eqb a b = false.
Proof. destruct a, b; intros H; try reflexivity; contradiction H; reflexivity. Qed.
Lemma cset_comm a b c n k : a <> b -> cset a (cset b c n) k = cset b (cset a c k) n.
Proof. destruct c as [[i j] l]. destruct a, b; intros H; try reflexivity; contradiction H; reflexivity. Qed.

Section Mirror.
Variable F : FieldOps.
Variable L : FieldLaws F.
Add Field FFmir : (FL_field F L).
Local Notation K := (K F).
Local Notation Mesh := (Mesh F).

Variable m : Mesh.
Variable a0 : axis.
Hypothesis Hc : cartesian F m.
Local Notation N := (mN F m a0).
Hypothesis HN : 1 <= N.

Definition maxis : Axis F := mkAxis F N (fun f => kopp F (axf F (max F m a0) (N - f))).
Definition mmesh : Mesh :=
  mkMesh F (mcls F m) (fun b => if axis_eqb b a0 then maxis else max F m b) (mpi F m) (msinp F m) (msinf F m).
Definition mcell (c : cell) : cell := cset a0 c (S N - cidx a0 c).
Definition mface (c : cell) : cell := cset a0 c (N - cidx a0 c).
Definition mcvar (x : cvar F) : cvar F := fun c' => x (mcell c').
(* sg = 1 for a coefficient field, -1 for a velocity *)
Definition mfvar (sg : K) (D : fvar F) : fvar F :=
  fun b c' => if axis_eqb b a0 then kmul F sg (D a0 (mface c')) else D b (mcell c').

Lemma mcell_invol c : cidx a0 c <= S N -> mcell (mcell c) = c.
Proof.
  intros H. unfold mcell. rewrite cidx_cset, cset_cset.
  replace (S N - (S N - cidx a0 c)) with (cidx a0 c) by lia. apply cset_id.
Qed.
Lemma mface_invol c : cidx a0 c <= N -> mface (mface c) = c.
Proof.
  intros H. unfold mface. rewrite cidx_cset, cset_cset.
  replace (N - (N - cidx a0 c)) with (cidx a0 c) by lia. apply cset_id.
Qed.
Lemma cidx_mcell c : cidx a0 (mcell c) = S N - cidx a0 c.
Proof. unfold mcell. apply cidx_cset. Qed.
Lemma cidx_mcell_other b c : b <> a0 -> cidx b (mcell c) = cidx b c.
Proof. intros H. unfold mcell. apply cidx_cset_other. intros E. apply H. symmetry. exact E. Qed.

(* ---- the mirrored axis ---- *)
Lemma mN_a0 : mN F mmesh a0 = N.
Proof. unfold mN, mmesh. cbn [max]. rewrite axis_eqb_refl. reflexivity. Qed.
Lemma mN_other b : b <> a0 -> mN F mmesh b = mN F m b.
Proof. intros H. unfold mN, mmesh. cbn [max]. rewrite (axis_eqb_neq b a0 H). reflexivity. Qed.
Lemma mDX_other b p : b <> a0 -> mDX F mmesh b p = mDX F m b p.
Proof. intros H. unfold mDX, mmesh. cbn [max]. rewrite (axis_eqb_neq b a0 H). reflexivity. Qed.
Lemma mdxf_other b p : b <> a0 -> mdxf F mmesh b p = mdxf F m b p.
Proof. intros H. unfold mdxf, mmesh. cbn [max]. rewrite (axis_eqb_neq b a0 H). reflexivity. Qed.

Lemma mDX_a0 p : p <= S N -> mDX F mmesh a0 p = mDX F m a0 (S N - p).
Proof.
  intros Hp. unfold mDX, mmesh. cbn [max]. rewrite axis_eqb_refl.
  unfold aDX, maxis. cbn [aN axf]. fold N.
  destruct (Nat.eqb p 0) eqn:E0.
  - apply Nat.eqb_eq in E0. subst p.
    replace (S N - 0) with (S N) by lia. cbn [Nat.eqb].
    assert (E1 : Nat.ltb N (S N) = true) by (apply Nat.ltb_lt; lia). rewrite E1.
    replace (N - 1) with (pred N) by lia. replace (N - 0) with N by lia. ring.
  - apply Nat.eqb_neq in E0.
    destruct (Nat.ltb N p) eqn:E1.
    + apply Nat.ltb_lt in E1. assert (p = S N) by lia. subst p.
      replace (S N - S N) with 0 by lia. cbn [Nat.eqb].
      replace (N - N) with 0 by lia. replace (N - pred N) with 1 by lia. ring.
    + apply Nat.ltb_ge in E1.
      assert (E2 : Nat.eqb (S N - p) 0 = false) by (apply Nat.eqb_neq; lia).
      assert (E3 : Nat.ltb N (S N - p) = false) by (apply Nat.ltb_ge; lia).
      rewrite E2, E3.
      replace (N - pred p) with (S N - p) by lia. replace (pred (S N - p)) with (N - p) by lia. ring.
Qed.
Lemma mdxf_a0 f : f <= N -> mdxf F mmesh a0 f = mdxf F m a0 (N - f).
Proof.
  intros Hf. unfold mdxf, adxf. fold (mDX F mmesh a0 f) (mDX F mmesh a0 (S f)) (mDX F m a0 (N - f)) (mDX F m a0 (S (N - f))).
  rewrite !mDX_a0 by lia.
  replace (S N - f) with (S (N - f)) by lia. replace (S N - S f) with (N - f) by lia.
  rewrite !(Fdiv_def (FL_field F L)). ring.
Qed.

Lemma cart_mmesh : cartesian F mmesh.
Proof. exact Hc. Qed.

Ltac cart :=
  rewrite ?(cart_A F mmesh), ?(cart_W F mmesh), ?(cart_fac F mmesh) by exact cart_mmesh;
  rewrite ?(cart_A F m), ?(cart_W F m), ?(cart_fac F m) by exact Hc.

(* ---- axis a0: east and west swap ---- *)
Section AlongA0.
Variable c : cell.
Hypothesis Hi : 1 <= cidx a0 c <= N.

Lemma mface_cdn_mcell : mface (cdn a0 (mcell c)) = c.
Proof.
  unfold mface, cdn, mcell. rewrite !cidx_cset, !cset_cset.
  replace (N - pred (S N - cidx a0 c)) with (cidx a0 c) by lia. apply cset_id.
Qed.
Lemma mface_mcell : mface (mcell c) = cdn a0 c.
Proof.
  unfold mface, cdn, mcell. rewrite !cidx_cset, !cset_cset.
  replace (N - (S N - cidx a0 c)) with (pred (cidx a0 c)) by lia. reflexivity.
Qed.
Lemma mcell_cset n : mcell (cset a0 c n) = cset a0 c (S N - n).
Proof. unfold mcell. rewrite cidx_cset, cset_cset. reflexivity. Qed.
Lemma cdn_mcell_a0 : cdn a0 (mcell c) = cset a0 c (N - cidx a0 c).
Proof. unfold cdn. rewrite cidx_mcell. unfold mcell. rewrite cset_cset. f_equal. lia. Qed.
Lemma cup_mcell_a0 : cup a0 (mcell c) = cset a0 c (S (S N - cidx a0 c)).
Proof. unfold cup. rewrite cidx_mcell. unfold mcell. rewrite cset_cset. reflexivity. Qed.
Lemma mcell_cdn_mcell : mcell (cdn a0 (mcell c)) = cup a0 c.
Proof. rewrite cdn_mcell_a0, mcell_cset. unfold cup. f_equal. lia. Qed.
Lemma mcell_cup_mcell : mcell (cup a0 (mcell c)) = cdn a0 c.
Proof. rewrite cup_mcell_a0, mcell_cset. unfold cdn. f_equal. lia. Qed.

Lemma mir_diffAW D : diffAW F mmesh (mfvar (k1 F) D) a0 (mcell c) = diffAE F m D a0 c.
Proof.
  unfold diffAW, diffAE. cart. unfold mfvar. rewrite axis_eqb_refl, mface_cdn_mcell, cidx_mcell.
  rewrite mDX_a0, mdxf_a0 by lia.
  replace (S N - (S N - cidx a0 c)) with (cidx a0 c) by lia.
  replace (N - pred (S N - cidx a0 c)) with (cidx a0 c) by lia. rewrite !(Fdiv_def (FL_field F L)). ring.
Qed.
Lemma mir_diffAE D : diffAE F mmesh (mfvar (k1 F) D) a0 (mcell c) = diffAW F m D a0 c.
Proof.
  unfold diffAW, diffAE. cart. unfold mfvar. rewrite axis_eqb_refl, mface_mcell, cidx_mcell.
  rewrite mDX_a0, mdxf_a0 by lia.
  replace (S N - (S N - cidx a0 c)) with (cidx a0 c) by lia.
  replace (N - (S N - cidx a0 c)) with (pred (cidx a0 c)) by lia. rewrite !(Fdiv_def (FL_field F L)). ring.
Qed.
Lemma mir_diffAP D : diffAP F mmesh (mfvar (k1 F) D) a0 (mcell c) = diffAP F m D a0 c.
Proof. unfold diffAP. rewrite mir_diffAW, mir_diffAE. ring. Qed.

Lemma mir_apply_axis_swap (AW' AP' AE' AW AP AE : axis -> cell -> K) (x : cvar F) :
  AW' a0 (mcell c) = AE a0 c -> AP' a0 (mcell c) = AP a0 c -> AE' a0 (mcell c) = AW a0 c ->
  apply_axis F AW' AP' AE' (mcvar x) a0 (mcell c) = apply_axis F AW AP AE x a0 c.
Proof.
  intros E1 E2 E3. unfold apply_axis, mcvar. rewrite E1, E2, E3, mcell_cdn_mcell, mcell_cup_mcell, mcell_invol by lia. ring.
Qed.

(* central advection: u' = -u mirrored *)
Lemma mir_cenE u : cenE F mmesh (mfvar (kopp F (k1 F)) u) a0 (mcell c) = kopp F (cenW F m u a0 c).
Proof.
  unfold cenE, cenW. cart. unfold mfvar. rewrite axis_eqb_refl, mface_mcell, cidx_mcell.
  rewrite !mDX_a0 by lia.
  replace (S N - (S N - cidx a0 c)) with (cidx a0 c) by lia.
  replace (S N - S (S N - cidx a0 c)) with (pred (cidx a0 c)) by lia.
  rewrite !(Fdiv_def (FL_field F L)). ring.
Qed.
Lemma mir_cenW u : cenW F mmesh (mfvar (kopp F (k1 F)) u) a0 (mcell c) = kopp F (cenE F m u a0 c).
Proof.
  unfold cenE, cenW. cart. unfold mfvar. rewrite axis_eqb_refl, mface_cdn_mcell, cidx_mcell.
  rewrite !mDX_a0 by lia.
  replace (S N - (S N - cidx a0 c)) with (cidx a0 c) by lia.
  replace (S N - pred (S N - cidx a0 c)) with (S (cidx a0 c)) by lia.
  rewrite !(Fdiv_def (FL_field F L)). ring.
Qed.
Lemma mir_cenAP u : cenAP F mmesh (mfvar (kopp F (k1 F)) u) a0 (mcell c) = cenAP F m u a0 c.
Proof.
  unfold cenAP. rewrite mir_cenE, mir_cenW, cidx_mcell. rewrite !mDX_a0 by lia.
  replace (S N - (S N - cidx a0 c)) with (cidx a0 c) by lia.
  replace (S N - S (S N - cidx a0 c)) with (pred (cidx a0 c)) by lia.
  replace (S N - pred (S N - cidx a0 c)) with (S (cidx a0 c)) by lia.
  rewrite !(Fdiv_def (FL_field F L)). ring.
Qed.
End AlongA0.

(* ---- the other axes: same coefficients, mirrored data ---- *)
Section Transverse.
Variable b : axis.
Hypothesis Hb : b <> a0.
Variable c : cell.
Hypothesis Hi : cidx a0 c <= S N.

Lemma mcell_cset_other n : mcell (cset b c n) = cset b (mcell c) n.
Proof.
  unfold mcell. rewrite (cidx_cset_other b a0 c n Hb). apply cset_comm. intros E. apply Hb. symmetry. exact E.
Qed.
Lemma cdn_mcell_other : cdn b (mcell c) = mcell (cdn b c).
Proof. unfold cdn. rewrite (cidx_mcell_other b c Hb). symmetry. apply mcell_cset_other. Qed.
Lemma cup_mcell_other : cup b (mcell c) = mcell (cup b c).
Proof. unfold cup. rewrite (cidx_mcell_other b c Hb). symmetry. apply mcell_cset_other. Qed.
Lemma mfvar_other sg D c' : mfvar sg D b c' = D b (mcell c').
Proof. unfold mfvar. rewrite (axis_eqb_neq b a0 Hb). reflexivity. Qed.
Lemma invol_cdn : mcell (mcell (cdn b c)) = cdn b c.
Proof. apply mcell_invol. unfold cdn. rewrite cidx_cset_other by exact Hb. exact Hi. Qed.
Lemma invol_cup : mcell (mcell (cup b c)) = cup b c.
Proof. apply mcell_invol. unfold cup. rewrite cidx_cset_other by exact Hb. exact Hi. Qed.

Lemma mir_diff_other D :
  diffAW F mmesh (mfvar (k1 F) D) b (mcell c) = diffAW F m D b c /\
  diffAP F mmesh (mfvar (k1 F) D) b (mcell c) = diffAP F m D b c /\
  diffAE F mmesh (mfvar (k1 F) D) b (mcell c) = diffAE F m D b c.
Proof.
  assert (EW : diffAW F mmesh (mfvar (k1 F) D) b (mcell c) = diffAW F m D b c).
  { unfold diffAW. cart. rewrite mfvar_other, cdn_mcell_other, invol_cdn, (cidx_mcell_other b c Hb), !mDX_other, !mdxf_other by exact Hb. reflexivity. }
  assert (EE : diffAE F mmesh (mfvar (k1 F) D) b (mcell c) = diffAE F m D b c).
  { unfold diffAE. cart. rewrite mfvar_other, (mcell_invol c Hi), (cidx_mcell_other b c Hb), !mDX_other, !mdxf_other by exact Hb. reflexivity. }
  repeat split; [exact EW| |exact EE]. unfold diffAP. rewrite EW, EE. reflexivity.
Qed.
Lemma mir_cen_other sg u :
  cenAW F mmesh (mfvar sg u) b (mcell c) = cenAW F m u b c /\
  cenAP F mmesh (mfvar sg u) b (mcell c) = cenAP F m u b c /\
  cenAE F mmesh (mfvar sg u) b (mcell c) = cenAE F m u b c.
Proof.
  assert (EE : cenE F mmesh (mfvar sg u) b (mcell c) = cenE F m u b c).
  { unfold cenE. cart. rewrite mfvar_other, (mcell_invol c Hi), (cidx_mcell_other b c Hb), !mDX_other by exact Hb. reflexivity. }
  assert (EW : cenW F mmesh (mfvar sg u) b (mcell c) = cenW F m u b c).
  { unfold cenW. cart. rewrite mfvar_other, cdn_mcell_other, invol_cdn, (cidx_mcell_other b c Hb), !mDX_other by exact Hb. reflexivity. }
  repeat split.
  - unfold cenAW. rewrite EW. reflexivity.
  - unfold cenAP. rewrite EE, EW, (cidx_mcell_other b c Hb), !mDX_other by exact Hb. reflexivity.
  - unfold cenAE. exact EE.
Qed.
Lemma mir_apply_axis_other (AW' AP' AE' AW AP AE : axis -> cell -> K) (x : cvar F) :
  AW' b (mcell c) = AW b c -> AP' b (mcell c) = AP b c -> AE' b (mcell c) = AE b c ->
  apply_axis F AW' AP' AE' (mcvar x) b (mcell c) = apply_axis F AW AP AE x b c.
Proof.
  intros E1 E2 E3. unfold apply_axis, mcvar. rewrite E1, E2, E3, cdn_mcell_other, cup_mcell_other, invol_cdn, invol_cup, (mcell_invol c Hi).
  reflexivity.
Qed.
End Transverse.

(* ---- the whole stencil ---- *)
Theorem diffusion_mirrors (D : fvar F) (x : cvar F) c :
  1 <= cidx a0 c <= N ->
  apply_stencil F mmesh (diffAW F mmesh (mfvar (k1 F) D)) (diffAP F mmesh (mfvar (k1 F) D)) (diffAE F mmesh (mfvar (k1 F) D))
    (mcvar x) (mcell c)
  = apply_stencil F m (diffAW F m D) (diffAP F m D) (diffAE F m D) x c.
Proof.
  intros Hi. unfold apply_stencil, sum_axes. change (mcls F mmesh) with (mcls F m). f_equal. apply map_ext. intros b.
  destruct (axis_eqb b a0) eqn:E.
  - apply axis_eqb_eq in E. subst b.
    apply mir_apply_axis_swap; [exact Hi|apply mir_diffAW; exact Hi|apply mir_diffAP; exact Hi|apply mir_diffAE; exact Hi].
  - assert (Hb : b <> a0) by (intros ->; rewrite axis_eqb_refl in E; discriminate).
    destruct (mir_diff_other b Hb c ltac:(lia) D) as (E1 & E2 & E3).
    apply mir_apply_axis_other; [exact Hb|lia|exact E1|exact E2|exact E3].
Qed.
Theorem central_mirrors (u : fvar F) (x : cvar F) c :
  1 <= cidx a0 c <= N ->
  apply_stencil F mmesh (cenAW F mmesh (mfvar (kopp F (k1 F)) u)) (cenAP F mmesh (mfvar (kopp F (k1 F)) u)) (cenAE F mmesh (mfvar (kopp F (k1 F)) u))
    (mcvar x) (mcell c)
  = apply_stencil F m (cenAW F m u) (cenAP F m u) (cenAE F m u) x c.
Proof.
  intros Hi. unfold apply_stencil, sum_axes. change (mcls F mmesh) with (mcls F m). f_equal. apply map_ext. intros b.
  destruct (axis_eqb b a0) eqn:E.
  - apply axis_eqb_eq in E. subst b.
    apply mir_apply_axis_swap; [exact Hi| | |].
    + unfold cenAW, cenAE. rewrite (mir_cenW c Hi). ring.
    + apply mir_cenAP; exact Hi.
    + unfold cenAW, cenAE. rewrite (mir_cenE c Hi). reflexivity.
  - assert (Hb : b <> a0) by (intros ->; rewrite axis_eqb_refl in E; discriminate).
    destruct (mir_cen_other b Hb c ltac:(lia) (kopp F (k1 F)) u) as (E1 & E2 & E3).
    apply mir_apply_axis_other; [exact Hb|lia|exact E1|exact E2|exact E3].
Qed.
End Mirror.

(* ---- upwind advection needs the order: over the reals (u' = -u mirrored, so max(u',0) = -min(u,0)) ---- *)
From Coq Require Import Reals Lra.
Section MirrorUpwind.
Local Open Scope R_scope.
Variable m : Mesh ROps.
Variable a0 : axis.
Hypothesis Hc : cartesian ROps m.
Local Notation N := (mN ROps m a0).
Hypothesis HN : (1 <= N)%nat.
Local Notation mm := (mmesh ROps m a0).
Local Notation mc := (mcell ROps m a0).
Local Notation mf := (mface ROps m a0).
Local Notation mu u := (mfvar ROps m a0 (kopp ROps (k1 ROps)) u).

Lemma mu_a0 u c' : mu u a0 c' = - u a0 (mf c').
Proof. unfold mfvar. rewrite axis_eqb_refl. cbn [kmul kopp k1 ROps K]. ring. Qed.
Lemma umax_mir u c' : umax ROps (mu u) (mu u) a0 c' = - umin ROps u u a0 (mf c').
Proof.
  unfold umax, umin. rewrite !mu_a0. cbn [kltb k0 ROps K]. unfold R_ltb.
  destruct (Rlt_dec (- u a0 (mf c')) 0), (Rlt_dec 0 (u a0 (mf c'))); cbn [k0 ROps]; lra.
Qed.
Lemma umin_mir u c' : umin ROps (mu u) (mu u) a0 c' = - umax ROps u u a0 (mf c').
Proof.
  unfold umax, umin. rewrite !mu_a0. cbn [kltb k0 ROps K]. unfold R_ltb.
  destruct (Rlt_dec 0 (- u a0 (mf c'))), (Rlt_dec (u a0 (mf c')) 0); cbn [k0 ROps]; lra.
Qed.

Ltac sd := first [assumption | exact RLaws | lia | (intros; lia)].
Ltac cartR :=
  rewrite ?(cart_A ROps mm), ?(cart_W ROps mm), ?(cart_fac ROps mm) by exact Hc;
  rewrite ?(cart_A ROps m), ?(cart_W ROps m), ?(cart_fac ROps m) by exact Hc.

Section A0.
Variable c : cell.
Hypothesis Hi : (1 <= cidx a0 c <= N)%nat.

Lemma is_hi_mir : is_hi ROps mm a0 (mc c) = is_lo a0 c.
Proof.
  unfold is_hi, is_lo. rewrite cidx_mcell, mN_a0 by sd.
  destruct (Nat.eqb (cidx a0 c) 1) eqn:E; [apply Nat.eqb_eq in E; apply Nat.eqb_eq; lia|apply Nat.eqb_neq in E; apply Nat.eqb_neq; lia].
Qed.
Lemma is_lo_mir : is_lo a0 (mc c) = is_hi ROps m a0 c.
Proof.
  unfold is_hi, is_lo. rewrite cidx_mcell by sd.
  destruct (Nat.eqb (cidx a0 c) N) eqn:E; [apply Nat.eqb_eq in E; apply Nat.eqb_eq; lia|apply Nat.eqb_neq in E; apply Nat.eqb_neq; lia].
Qed.

Lemma mir_upwAE u : upwAE ROps mm (mu u) (mu u) a0 (mc c) = upwAW ROps m u u a0 c.
Proof.
  unfold upwAE, upwAW. rewrite is_hi_mir, umin_mir. rewrite mface_mcell by sd. cartR.
  rewrite cidx_mcell, mDX_a0 by sd.
  replace (S N - (S N - cidx a0 c))%nat with (cidx a0 c) by lia.
  unfold half_if. cbn [kmul kdiv kopp kadd k1 ROps K]. destruct (is_lo a0 c); unfold Rdiv; ring.
Qed.
Lemma mir_upwAW u : upwAW ROps mm (mu u) (mu u) a0 (mc c) = upwAE ROps m u u a0 c.
Proof.
  unfold upwAE, upwAW. rewrite is_lo_mir, umax_mir. rewrite mface_cdn_mcell by sd. cartR.
  rewrite cidx_mcell, mDX_a0 by sd.
  replace (S N - (S N - cidx a0 c))%nat with (cidx a0 c) by lia.
  unfold half_if. cbn [kmul kdiv kopp kadd k1 ROps K]. destruct (is_hi ROps m a0 c); unfold Rdiv; ring.
Qed.
Lemma mir_upwAP u : upwAP ROps mm (mu u) (mu u) a0 (mc c) = upwAP ROps m u u a0 c.
Proof.
  unfold upwAP. rewrite is_lo_mir, is_hi_mir, !umax_mir, !umin_mir. rewrite mface_cdn_mcell, mface_mcell by sd. cartR.
  rewrite cidx_mcell, mDX_a0 by sd.
  replace (S N - (S N - cidx a0 c))%nat with (cidx a0 c) by lia.
  cbn [kmul kdiv kopp kadd ksub k0 k1 ROps K]. destruct (is_lo a0 c), (is_hi ROps m a0 c); unfold Rdiv; ring.
Qed.
End A0.

Lemma mir_upw_other b c u : b <> a0 -> (cidx a0 c <= S N)%nat ->
  upwAW ROps mm (mu u) (mu u) b (mc c) = upwAW ROps m u u b c /\
  upwAP ROps mm (mu u) (mu u) b (mc c) = upwAP ROps m u u b c /\
  upwAE ROps mm (mu u) (mu u) b (mc c) = upwAE ROps m u u b c.
Proof.
  intros Hb Hi.
  assert (Emax : forall c', umax ROps (mu u) (mu u) b c' = umax ROps u u b (mc c')).
  { intros c'. unfold umax. rewrite !mfvar_other by sd. reflexivity. }
  assert (Emin : forall c', umin ROps (mu u) (mu u) b c' = umin ROps u u b (mc c')).
  { intros c'. unfold umin. rewrite !mfvar_other by sd. reflexivity. }
  assert (Elo : is_lo b (mc c) = is_lo b c) by (unfold is_lo; rewrite cidx_mcell_other by sd; reflexivity).
  assert (Ehi : is_hi ROps mm b (mc c) = is_hi ROps m b c).
  { unfold is_hi. rewrite cidx_mcell_other, mN_other by sd. reflexivity. }
  repeat split.
  - unfold upwAW. rewrite Elo, Emax. rewrite cdn_mcell_other, invol_cdn by sd. cartR.
    rewrite cidx_mcell_other, !mDX_other by sd. reflexivity.
  - unfold upwAP. rewrite Elo, Ehi, !Emax, !Emin. rewrite cdn_mcell_other, invol_cdn, mcell_invol by sd. cartR.
    rewrite cidx_mcell_other, !mDX_other by sd. reflexivity.
  - unfold upwAE. rewrite Ehi, Emin. rewrite mcell_invol by sd. cartR.
    rewrite cidx_mcell_other, !mDX_other by sd. reflexivity.
Qed.

Theorem upwind_mirrors (u : fvar ROps) (x : cvar ROps) c :
  (1 <= cidx a0 c <= N)%nat ->
  apply_stencil ROps mm (upwAW ROps mm (mu u) (mu u)) (upwAP ROps mm (mu u) (mu u)) (upwAE ROps mm (mu u) (mu u))
    (mcvar ROps m a0 x) (mc c)
  = apply_stencil ROps m (upwAW ROps m u u) (upwAP ROps m u u) (upwAE ROps m u u) x c.
Proof.
  intros Hi. unfold apply_stencil, sum_axes. change (mcls ROps mm) with (mcls ROps m). f_equal. apply map_ext. intros b.
  destruct (axis_eqb b a0) eqn:E.
  - apply axis_eqb_eq in E. subst b.
    apply mir_apply_axis_swap; first [exact RLaws | exact HN | exact Hi | apply mir_upwAW; exact Hi | apply mir_upwAP; exact Hi | apply mir_upwAE; exact Hi].
  - assert (Hb : b <> a0) by (intros ->; rewrite axis_eqb_refl in E; discriminate).
    destruct (mir_upw_other b c u Hb ltac:(lia)) as (E1 & E2 & E3).
    apply mir_apply_axis_other; first [exact Hb | lia | exact E1 | exact E2 | exact E3].
Qed.
End MirrorUpwind.
