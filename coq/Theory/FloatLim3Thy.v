(* Binary64 finiteness of ospre:  den0 = r (r + 1) + 1 >= 1/2 in floating point by monotonicity of rounding alone
   (r >= 0 or r <= -1: r * rnd(r+1) >= 0;  -1 < r <= -1/2: rnd(r+1) <= 1/2 and |r| < 1;  -1/2 < r < 0: rnd(r+1) <= 1 and |r| < 1/2),
   so the guard term eps * [den0 == 0] is exactly zero and the quotient is bounded. *)
From Coq Require Import ZArith Reals Lra Lia Bool Floats String List.
From Flocq Require Import Core.Core IEEE754.BinarySingleNaN.
From PFV Require Import OField KOps F64Ops FloatThy Limiters LimiterThy FloatLimThy FloatLim2Thy.
Local Open Scope R_scope.
Local Instance prec_pos3 : Prec_gt_0 prec := eq_refl.
Local Instance fexp_valid3 : Valid_exp fexp := FLT_exp_valid emin prec.

Lemma FR_one : ffin one /\ FR one = 1.
Proof. destruct (const_FR one false 4503599627370496%positive (-52)%Z eq_refl) as [F E]. split; [exact F|]. rewrite E. simpl. lra. Qed.

Lemma fmt_half : generic_format radix2 fexp (/ 2).
Proof. replace (/ 2) with (bpow radix2 (-1)) by (simpl; lra). apply fmt_bpow. unfold emin, emax, prec. lia. Qed.
Lemma rnd_half : rnd (/ 2) = / 2.
Proof. apply round_generic; [auto with typeclass_instances|apply fmt_half]. Qed.
Lemma rnd_mhalf : rnd (- / 2) = - / 2.
Proof. apply round_generic; [auto with typeclass_instances|apply generic_format_opp, fmt_half]. Qed.
Lemma rnd_1 : rnd 1 = 1.
Proof. destruct FR_one as [_ E]. rewrite <- E. apply rnd_FR. Qed.

Lemma ospre_den0_ge_half r : fin 500 r ->
  fin 1002 (PrimFloat.add (PrimFloat.mul r (PrimFloat.add r one)) one) /\
  / 2 <= FR (PrimFloat.add (PrimFloat.mul r (PrimFloat.add r one)) one).
Proof.
  intro Hr. destruct FR_one as [F1 E1]. assert (H1 : fin 1 one) by fin_tac.
  destruct (fin_add 500 1 r one Hr H1 eq_refl) as [Ha Ea]. rewrite E1 in Ea.
  destruct (fin_mul 500 _ r _ Hr Ha eq_refl) as [Hp Ep].
  destruct (fin_add _ 1 _ one Hp H1 eq_refl) as [Hd Ed]. rewrite E1 in Ed.
  split; [eapply fin_weaken; [exact Hd|vm_compute; discriminate]|].
  assert (P : - / 2 <= FR (PrimFloat.mul r (PrimFloat.add r one))).
  { rewrite Ep. rewrite <- rnd_mhalf. apply rnd_le. rewrite Ea.
    set (x := FR r). set (a := rnd (x + 1)).
    destruct (Rle_or_lt 0 x) as [H0|H0].
    - assert (1 <= a) by (rewrite <- rnd_1; apply rnd_le; lra). nra.
    - destruct (Rle_or_lt x (-1)) as [Hm|Hm].
      + assert (a <= 0) by (rewrite <- rnd_0'; apply rnd_le; lra). nra.
      + assert (0 <= a) by (rewrite <- rnd_0'; apply rnd_le; lra).
        destruct (Rle_or_lt x (- / 2)) as [Hh|Hh].
        * assert (a <= / 2) by (rewrite <- rnd_half; apply rnd_le; lra). nra.
        * assert (a <= 1) by (rewrite <- rnd_1; apply rnd_le; lra). nra. }
  rewrite Ed. rewrite <- rnd_half. apply rnd_le. lra.
Qed.

Lemma float_ospre eps r : fin 0 eps -> fin 500 r -> ffin (FL_ospre FOps eps r).
Proof.
  intros He Hr. unfold_model.
  destruct (ospre_den0_ge_half r Hr) as [Hd0 Hge]. destruct FR_zero as [Fz Ez].
  assert (H0 : fin 0 zero) by fin_tac.
  set (d0 := PrimFloat.add (PrimFloat.mul r (PrimFloat.add r one)) one) in *.
  rewrite (eqb_FR d0 zero (proj1 Hd0) Fz), Ez.
  destruct (Req_bool_spec (FR d0) 0) as [E|_]; [lra|].
  assert (Hm : fin (0 + 0) (PrimFloat.mul eps zero) /\ FR (PrimFloat.mul eps zero) = 0)
    by (apply mul_zero_r; [assumption|assumption|reflexivity|assumption]).
  destruct Hm as [Hm Em].
  assert (Hd : fin (Z.max 1002 (0 + 0) + 1) (PrimFloat.add d0 (PrimFloat.mul eps zero)) /\ FR (PrimFloat.add d0 (PrimFloat.mul eps zero)) = FR d0)
    by (apply add_zero_r; [assumption|assumption|reflexivity|assumption]).
  destruct Hd as [Hd Ed].
  assert (Hp : pos (-1) (PrimFloat.add d0 (PrimFloat.mul eps zero))) by (unfold pos; rewrite Ed; simpl bpow; lra).
  assert (Hn : { k : Z | fin k ((one + (one + one)) / (one + one) * r * (r + one))%float /\ okexp (k - (-1)) = true }).
  { eexists. split; [fin_tac|vm_compute; reflexivity]. }
  destruct Hn as (k & Hn & Hok).
  exact (proj1 (fin_div' _ _ _ _ _ Hn Hd Hp Hok)).
Qed.
