(* Consistency of the ADVECTION stencil for arbitrary smooth functions: the Taylor remainder of the central first difference
   (Coquelicot's Taylor-Lagrange, C3 functions), and its form for the model's central convection stencil with constant face
   velocity on a uniform Cartesian axis.  Companion of TaylorThy.v (second difference / diffusion). *)
From Coq Require Import Reals Lra Lia.
From Coquelicot Require Import Coquelicot.
From PFV Require Import OField KOps Grid Ops.
Local Open Scope R_scope.

Section Taylor1.
Local Opaque Derive_n.
Variable f : R -> R.
Hypothesis smooth : forall t k, (k <= 3)%nat -> ex_derive_n f k t.

Lemma taylor3_forward x h : 0 < h -> exists z, x < z < x + h /\
  f (x + h) = f x + h * Derive_n f 1 x + h * h / 2 * Derive_n f 2 x + h * h * h / 6 * Derive_n f 3 z.
Proof.
  intro Hh.
  destruct (Taylor_Lagrange f 2 x (x + h)) as (z & Hz & E); [lra| intros t _ k Hk; apply smooth; exact Hk |].
  exists z. split; [exact Hz|]. rewrite E. replace (x + h - x) with h by ring. cbn [sum_f_R0 fact INR pow Nat.mul Nat.add]. change (Derive_n f 0 x) with (f x). simpl INR. field.
Qed.

Lemma taylor3_backward x h : 0 < h -> exists z, x - h < z < x /\
  f (x - h) = f x - h * Derive_n f 1 x + h * h / 2 * Derive_n f 2 x - h * h * h / 6 * Derive_n f 3 z.
Proof.
  intro Hh. set (g := fun t => f (- t)).
  assert (Dg : forall k t, (k <= 3)%nat -> Derive_n g k t = (-1) ^ k * Derive_n f k (- t)).
  { intros k t Hk. unfold g. apply Derive_n_comp_opp. apply filter_forall. intros y j Hj. apply smooth. lia. }
  assert (Eg : forall t k, (k <= 3)%nat -> ex_derive_n g k t).
  { intros t k Hk. unfold g. apply ex_derive_n_comp_opp. apply filter_forall. intros y j Hj. apply smooth. lia. }
  destruct (Taylor_Lagrange g 2 (- x) (- x + h)) as (z & Hz & E); [lra| intros t _ k Hk; apply Eg; exact Hk |].
  exists (- z). split; [lra|].
  assert (G : g (- x + h) = f (x - h)) by (unfold g; f_equal; ring).
  rewrite <- G, E. replace (- x + h - - x) with h by ring. cbn [sum_f_R0 fact INR pow Nat.mul Nat.add]. rewrite !Dg by lia. rewrite !Ropp_involutive. change (Derive_n f 0 x) with (f x). simpl INR. simpl pow. field.
Qed.

(* | (f(x+h) - f(x-h)) / (2h) - f'(x) |  <=  max|f'''| h^2 / 6 *)
Theorem central_difference_remainder x h M : 0 < h ->
  (forall t, x - h < t < x + h -> Rabs (Derive_n f 3 t) <= M) ->
  Rabs ((f (x + h) - f (x - h)) / (2 * h) - Derive_n f 1 x) <= M * (h * h) / 6.
Proof.
  intros Hh HM.
  destruct (taylor3_forward x h Hh) as (z1 & Hz1 & E1). destruct (taylor3_backward x h Hh) as (z2 & Hz2 & E2).
  rewrite E1, E2.
  replace ((f x + h * Derive_n f 1 x + h * h / 2 * Derive_n f 2 x + h * h * h / 6 * Derive_n f 3 z1
            - (f x - h * Derive_n f 1 x + h * h / 2 * Derive_n f 2 x - h * h * h / 6 * Derive_n f 3 z2))
           / (2 * h) - Derive_n f 1 x)
    with (h * h / 12 * (Derive_n f 3 z1 + Derive_n f 3 z2)) by (field; lra).
  assert (B1 := HM z1 ltac:(lra)). assert (B2 := HM z2 ltac:(lra)).
  rewrite Rabs_mult. rewrite (Rabs_pos_eq (h * h / 12)) by (apply Rmult_le_pos; [apply Rmult_le_pos; lra|lra]).
  assert (Rabs (Derive_n f 3 z1 + Derive_n f 3 z2) <= M + M) as B by (eapply Rle_trans; [apply Rabs_triang|lra]).
  assert (0 <= h * h / 12) by (apply Rmult_le_pos; [apply Rmult_le_pos; lra|lra]).
  eapply Rle_trans; [apply Rmult_le_compat_l; [assumption|exact B]|]. right. field.
Qed.
End Taylor1.

(* the model's central convection stencil along a uniform Cartesian axis (A = 1, W = h, fac = 1, constant face velocity uc),
   applied to the samples of a smooth function at xi - h, xi, xi + h:
   | stencil - uc f'(xi) | <= |uc| max|f'''| h^2 / 6   (second-order consistency of convectionTerm on a uniform axis) *)
Theorem taylor_central_cartesian_axis (f : R -> R) (m : Mesh ROps) (a : axis) (c : cell) (h xi uc M : R) (u : fvar ROps) (x : cvar ROps) :
  (forall t k, (k <= 3)%nat -> ex_derive_n f k t) ->
  0 < h ->
  mfac ROps m a c = 1 -> mA ROps m a (cidx a c) = 1 -> mA ROps m a (pred (cidx a c)) = 1 -> mW ROps m a (cidx a c) = h ->
  mDX ROps m a (cidx a c) = h /\ mDX ROps m a (S (cidx a c)) = h /\ mDX ROps m a (pred (cidx a c)) = h ->
  u a c = uc /\ u a (cdn a c) = uc ->
  x (cdn a c) = f (xi - h) /\ x c = f xi /\ x (cup a c) = f (xi + h) ->
  (forall t, xi - h < t < xi + h -> Rabs (Derive_n f 3 t) <= M) ->
  Rabs (apply_axis ROps (cenAW ROps m u) (cenAP ROps m u) (cenAE ROps m u) x a c - uc * Derive_n f 1 xi)
  <= Rabs uc * (M * (h * h) / 6).
Proof.
  intros Sm Hh Hf HA1 HA0 HW (E1 & E2 & E0) [U1 U0] (X0 & X1 & X2) HM.
  assert (Es : apply_axis ROps (cenAW ROps m u) (cenAP ROps m u) (cenAE ROps m u) x a c
               = uc * ((f (xi + h) - f (xi - h)) / (2 * h))).
  { unfold apply_axis, cenAP, cenAE, cenAW, cenE, cenW. rewrite Hf, HA1, HA0, HW, E1, E2, E0, U1, U0, X0, X1, X2.
    cbn [kadd kmul ksub kdiv kopp ROps k0 k1 K]. field. lra. }
  rewrite Es.
  replace (uc * ((f (xi + h) - f (xi - h)) / (2 * h)) - uc * Derive_n f 1 xi)
    with (uc * ((f (xi + h) - f (xi - h)) / (2 * h) - Derive_n f 1 xi)) by ring.
  rewrite Rabs_mult. apply Rmult_le_compat_l; [apply Rabs_pos|].
  apply central_difference_remainder; assumption.
Qed.

(* ---- first-order consistency of the UPWIND stencil: the one-sided differences ---- *)
Section Taylor2.
Local Opaque Derive_n.
Variable f : R -> R.
Hypothesis smooth : forall t k, (k <= 2)%nat -> ex_derive_n f k t.

Lemma taylor2_forward x h : 0 < h -> exists z, x < z < x + h /\
  f (x + h) = f x + h * Derive_n f 1 x + h * h / 2 * Derive_n f 2 z.
Proof.
  intro Hh.
  destruct (Taylor_Lagrange f 1 x (x + h)) as (z & Hz & E); [lra| intros t _ k Hk; apply smooth; exact Hk |].
  exists z. split; [exact Hz|]. rewrite E. replace (x + h - x) with h by ring. cbn [sum_f_R0 fact INR pow Nat.mul Nat.add]. change (Derive_n f 0 x) with (f x). simpl INR. field.
Qed.

Lemma taylor2_backward x h : 0 < h -> exists z, x - h < z < x /\
  f (x - h) = f x - h * Derive_n f 1 x + h * h / 2 * Derive_n f 2 z.
Proof.
  intro Hh. set (g := fun t => f (- t)).
  assert (Dg : forall k t, (k <= 2)%nat -> Derive_n g k t = (-1) ^ k * Derive_n f k (- t)).
  { intros k t Hk. unfold g. apply Derive_n_comp_opp. apply filter_forall. intros y j Hj. apply smooth. lia. }
  assert (Eg : forall t k, (k <= 2)%nat -> ex_derive_n g k t).
  { intros t k Hk. unfold g. apply ex_derive_n_comp_opp. apply filter_forall. intros y j Hj. apply smooth. lia. }
  destruct (Taylor_Lagrange g 1 (- x) (- x + h)) as (z & Hz & E); [lra| intros t _ k Hk; apply Eg; exact Hk |].
  exists (- z). split; [lra|].
  assert (G : g (- x + h) = f (x - h)) by (unfold g; f_equal; ring).
  rewrite <- G, E. replace (- x + h - - x) with h by ring. cbn [sum_f_R0 fact INR pow Nat.mul Nat.add]. rewrite !Dg by lia. rewrite !Ropp_involutive. change (Derive_n f 0 x) with (f x). simpl INR. simpl pow. field.
Qed.

(* | (f(x) - f(x-h)) / h - f'(x) | <= max|f''| h / 2   and the mirror image *)
Theorem backward_difference_remainder x h M : 0 < h ->
  (forall t, x - h < t < x + h -> Rabs (Derive_n f 2 t) <= M) ->
  Rabs ((f x - f (x - h)) / h - Derive_n f 1 x) <= M * h / 2.
Proof.
  intros Hh HM. destruct (taylor2_backward x h Hh) as (z & Hz & E). rewrite E.
  replace ((f x - (f x - h * Derive_n f 1 x + h * h / 2 * Derive_n f 2 z)) / h - Derive_n f 1 x)
    with (- (h / 2) * Derive_n f 2 z) by (field; lra).
  assert (B := HM z ltac:(lra)).
  rewrite Rabs_mult, Rabs_Ropp, (Rabs_pos_eq (h / 2)) by lra.
  replace (M * h / 2) with (h / 2 * M) by field. apply Rmult_le_compat_l; [lra|exact B].
Qed.

Theorem forward_difference_remainder x h M : 0 < h ->
  (forall t, x - h < t < x + h -> Rabs (Derive_n f 2 t) <= M) ->
  Rabs ((f (x + h) - f x) / h - Derive_n f 1 x) <= M * h / 2.
Proof.
  intros Hh HM. destruct (taylor2_forward x h Hh) as (z & Hz & E). rewrite E.
  replace ((f x + h * Derive_n f 1 x + h * h / 2 * Derive_n f 2 z - f x) / h - Derive_n f 1 x)
    with (h / 2 * Derive_n f 2 z) by (field; lra).
  assert (B := HM z ltac:(lra)).
  rewrite Rabs_mult, (Rabs_pos_eq (h / 2)) by lra.
  replace (M * h / 2) with (h / 2 * M) by field. apply Rmult_le_compat_l; [lra|exact B].
Qed.
End Taylor2.

(* the model's upwind convection stencil (convectionUpwindTerm) in an INTERIOR cell of a uniform Cartesian axis (A = 1, W = h,
   fac = 1) with constant face velocity uc <> 0, applied to the samples of a C2 function:
   | stencil - uc f'(xi) | <= |uc| max|f''| h / 2   (first-order consistency, either flow direction) *)
Theorem taylor_upwind_cartesian_axis (f : R -> R) (m : Mesh ROps) (a : axis) (c : cell) (h xi uc M : R) (u : fvar ROps) (x : cvar ROps) :
  (forall t k, (k <= 2)%nat -> ex_derive_n f k t) ->
  0 < h -> uc <> 0 ->
  is_lo a c = false -> is_hi ROps m a c = false ->
  mfac ROps m a c = 1 -> mA ROps m a (cidx a c) = 1 -> mA ROps m a (pred (cidx a c)) = 1 -> mW ROps m a (cidx a c) = h ->
  u a c = uc /\ u a (cdn a c) = uc ->
  x (cdn a c) = f (xi - h) /\ x c = f xi /\ x (cup a c) = f (xi + h) ->
  (forall t, xi - h < t < xi + h -> Rabs (Derive_n f 2 t) <= M) ->
  Rabs (apply_axis ROps (upwAW ROps m u u) (upwAP ROps m u u) (upwAE ROps m u u) x a c - uc * Derive_n f 1 xi)
  <= Rabs uc * (M * h / 2).
Proof.
  intros Sm Hh Hu Hlo Hhi Hf HA1 HA0 HW [U1 U0] (X0 & X1 & X2) HM.
  assert (Es : apply_axis ROps (upwAW ROps m u u) (upwAP ROps m u u) (upwAE ROps m u u) x a c
               = if Rlt_dec 0 uc then uc * ((f xi - f (xi - h)) / h) else uc * ((f (xi + h) - f xi) / h)).
  { unfold apply_axis, upwAW, upwAP, upwAE, umax, umin, half_if. rewrite Hlo, Hhi, Hf, HA1, HA0, HW, U1, U0, X0, X1, X2.
    cbn [kadd kmul ksub kdiv kopp kltb ROps k0 k1 K]. unfold R_ltb.
    destruct (Rlt_dec 0 uc) as [P|P]; destruct (Rlt_dec uc 0) as [Q|Q]; try (exfalso; lra); field; lra. }
  rewrite Es. destruct (Rlt_dec 0 uc) as [P|P].
  - replace (uc * ((f xi - f (xi - h)) / h) - uc * Derive_n f 1 xi) with (uc * ((f xi - f (xi - h)) / h - Derive_n f 1 xi)) by ring.
    rewrite Rabs_mult. apply Rmult_le_compat_l; [apply Rabs_pos|]. apply backward_difference_remainder; assumption.
  - replace (uc * ((f (xi + h) - f xi) / h) - uc * Derive_n f 1 xi) with (uc * ((f (xi + h) - f xi) / h - Derive_n f 1 xi)) by ring.
    rewrite Rabs_mult. apply Rmult_le_compat_l; [apply Rabs_pos|]. apply forward_difference_remainder; assumption.
Qed.
