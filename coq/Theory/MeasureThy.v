(* For every grid class the coded cell volume is a measure with respect to which the discrete
   operators are in flux form (V * fac / W is constant along each grid line) -- except
   SphericalGrid3D, where this holds for the midpoint measure r_p^2 sin(theta_p) dr dtheta dphi and
   NOT for the coded cellvolume (finding 6.11). *)
From Coq Require Import Arith List Bool Field Lia.
From PFV Require Import OField KOps Sums Grid Ops StencilThy ConservThy.
Import ListNotations.

Section Measure.
Variable F : FieldOps.
Variable L : FieldLaws F.
Add Field FFm : (FL_field F L).
Local Notation K := (K F).
Local Notation "0" := (k0 F).
Local Notation "1" := (k1 F).
Local Infix "+" := (kadd F).
Local Infix "*" := (kmul F).
Local Infix "-" := (ksub F).
Local Infix "/" := (kdiv F).
Local Notation two := (kadd F (k1 F) (k1 F)).
Local Notation three := (kadd F (k1 F) (kadd F (k1 F) (k1 F))).
Local Notation Mesh := (Mesh F).

Definition mT (m : Mesh) (a : axis) (c : cell) : K :=
  let '(i, j, k) := c in
  match mcls F m, a with
  | G1, AX => 1
  | C1, AX => two * mpi F m
  | S1, AX => four F * mpi F m
  | G2, AX => mDX F m AY j
  | G2, AY => mDX F m AX i
  | C2, AX => two * mpi F m * mDX F m AY j
  | C2, AY => mpi F m * r2diff F m i
  | P2, AX => mDX F m AY j
  | P2, AY => mDX F m AX i
  | G3, AX => mDX F m AY j * mDX F m AZ k
  | G3, AY => mDX F m AX i * mDX F m AZ k
  | G3, AZ => mDX F m AX i * mDX F m AY j
  | C3, AX => mDX F m AY j * mDX F m AZ k
  | C3, AY => mDX F m AX i * mDX F m AZ k
  | C3, AZ => mDX F m AY j * mrp F m i * mDX F m AX i
  | S3, AX => msinp F m j * mDX F m AY j * mDX F m AZ k
  | S3, AY => mrp F m i * mDX F m AX i * mDX F m AZ k
  | S3, AZ => mrp F m i * mDX F m AX i * mDX F m AY j
  | _, _ => 0
  end.

Definition radial (g : gclass) : bool := match g with G1 | G2 | G3 => false | _ => true end.
(* what "a valid mesh" means for the algebra: the denominators that occur are non-zero.
   (Strictly increasing faces with r >= 0 and 0 < theta < pi imply all of these over an ordered field.) *)
Record mesh_ok (m : Mesh) : Prop := {
  ok_DX : forall a i, active F m a = true -> 1 <= i <= mN F m a -> mDX F m a i <> 0;
  ok_rp : radial (mcls F m) = true -> forall i, 1 <= i <= mN F m AX -> mrp F m i <> 0;
  ok_pi : mpi F m <> 0;
  ok_sin : mcls F m = S3 -> forall j, 1 <= j <= mN F m AY -> msinp F m j <> 0;
  ok_r3 : mcls F m = S1 -> forall i, 1 <= i <= mN F m AX -> r3diff F m i <> 0
}.

Lemma mDX_interior (m : Mesh) a i : 1 <= i <= mN F m a ->
  mDX F m a i = axf F (max F m a) i - axf F (max F m a) (pred i).
Proof.
  intros [H1 H2]. unfold mDX, aDX.
  assert (E0 : Nat.eqb i 0 = false) by (apply Nat.eqb_neq; lia).
  assert (E1 : Nat.ltb (aN F (max F m a)) i = false) by (apply Nat.ltb_ge; exact H2).
  rewrite E0, E1. reflexivity.
Qed.
Lemma r2diff_rp (m : Mesh) i : 1 <= i <= mN F m AX ->
  r2diff F m i = two * mrp F m i * mDX F m AX i.
Proof.
  intros Hi. rewrite (mDX_interior m AX i Hi). unfold r2diff, mrp, mrf, axc.
  field. apply (two_neq_0 F L).
Qed.

Lemma mul_neq_0 (x y : K) : x <> 0 -> y <> 0 -> x * y <> 0.
Proof.
  intros Hx Hy H. apply Hx. transitivity (x * y / y); [field; exact Hy|]. rewrite H. field. exact Hy.
Qed.
Lemma div_neq_0 (x y : K) : x <> 0 -> y <> 0 -> x / y <> 0.
Proof.
  intros Hx Hy H. apply Hx. transitivity (x / y * y); [field; exact Hy|]. rewrite H. ring.
Qed.
Ltac nz := repeat first [assumption | apply mul_neq_0 | apply div_neq_0].

Theorem measure_ok_class (m : Mesh) a :
  mesh_ok m -> In a (active_axes F m) -> mcls F m <> S3 -> measure_ok F m (mvol F m) (mT m) a.
Proof.
  intros Hok Ha HS3. pose proof (axes_active F m a Ha) as Hact. split.
  - intros [[i j] k] n. unfold mT. destruct (mcls F m), a; reflexivity.
  - intros [[i j] k] Hint.
    pose proof (proj1 (interior_iff F m (i, j, k)) Hint) as Hb.
    pose proof (two_neq_0 F L) as H2. pose proof (FL_three F L) as H3. pose proof (ok_pi m Hok) as Hpi.
    assert (HX : 1 <= i <= mN F m AX) by (apply (Hb AX); reflexivity).
    pose proof (ok_DX m Hok AX i eq_refl HX) as HDX.
    pose proof (ok_rp m Hok) as Hrp. pose proof (ok_r3 m Hok) as Hr3.
    pose proof (r2diff_rp m i HX) as Er2.
    unfold active_axes, axes_of in Ha. unfold active in Hact, Hb.
    unfold mW, mfac, mvol, mT, four. cbn [cidx].
    destruct (mcls F m) eqn:Ec; try (exfalso; apply HS3; reflexivity); cbn [gdim radial] in *;
    try specialize (Hrp eq_refl i HX); try specialize (Hr3 eq_refl i HX);
    destruct a; cbn [In] in Ha; try (exfalso; intuition discriminate).
    all: try (assert (HY : 1 <= j <= mN F m AY) by (apply (Hb AY); reflexivity);
              assert (actY : active F m AY = true) by (unfold active; rewrite Ec; reflexivity);
              pose proof (ok_DX m Hok AY j actY HY) as HDY).
    all: try (assert (HZ : 1 <= k <= mN F m AZ) by (apply (Hb AZ); reflexivity);
              assert (actZ : active F m AZ = true) by (unfold active; rewrite Ec; reflexivity);
              pose proof (ok_DX m Hok AZ k actZ HZ) as HDZ).
    all: rewrite ?Er2; cbn [cidx]; unfold r3diff in *; split; [nz|].
    all: unfold r3diff in *; field; repeat split; assumption.
Qed.

(* SphericalGrid3D: the operators are in flux form for the midpoint measure *)
Theorem measure_ok_S3_mid (m : Mesh) a :
  mesh_ok m -> mcls F m = S3 -> measure_ok F m (mvol_mid F m) (mT m) a.
Proof.
  intros Hok Ec. split.
  - intros [[i j] k] n. unfold mT. rewrite Ec. destruct a; reflexivity.
  - intros [[i j] k] Hint.
    pose proof (proj1 (interior_iff F m (i, j, k)) Hint) as Hb. unfold active in Hb. rewrite Ec in Hb. cbn [gdim] in Hb.
    assert (HX : 1 <= i <= mN F m AX) by (apply (Hb AX); reflexivity).
    assert (HY : 1 <= j <= mN F m AY) by (apply (Hb AY); reflexivity).
    assert (HZ : 1 <= k <= mN F m AZ) by (apply (Hb AZ); reflexivity).
    assert (act : forall b, active F m b = true) by (intros b; unfold active; rewrite Ec; destruct b; reflexivity).
    pose proof (ok_DX m Hok AX i (act AX) HX) as HDX. pose proof (ok_DX m Hok AY j (act AY) HY) as HDY.
    pose proof (ok_DX m Hok AZ k (act AZ) HZ) as HDZ.
    assert (Hrad : radial (mcls F m) = true) by (rewrite Ec; reflexivity).
    pose proof (ok_rp m Hok Hrad i HX) as Hrp. pose proof (ok_sin m Hok Ec j HY) as Hsin.
    unfold mW, mfac, mvol_mid, mT. rewrite Ec. cbn [cidx].
    destruct a; cbn [cidx]; (split; [nz|field; repeat split; assumption]).
Qed.
End Measure.
