"""Correspondence suites for the discrete operators: the generic Coq model (Model/Ops.v instantiated at Qc)
against every per-class numpy builder, on seeded exactly-representable inputs.  The comparison itself is
evaluated inside Coq (vm_compute); this module only generates inputs, runs the implementation and serialises."""
import random, hashlib, json, io, contextlib, traceback
from fractions import Fraction
import numpy as np
import lib, gen

SUFFIX = {"Grid1D": "1D", "CylindricalGrid1D": "Cylindrical1D", "SphericalGrid1D": "Spherical1D", "Grid2D": "2D",
          "CylindricalGrid2D": "Cylindrical2D", "PolarGrid2D": "Polar2D", "Grid3D": "3D",
          "CylindricalGrid3D": "Cylindrical3D", "SphericalGrid3D": "Spherical3D"}
AXN = ["AX", "AY", "AZ"]
HEADER = ("From Coq Require Import ZArith QArith Qcanon List String Bool.\n"
          "From PFV Require Import OField KOps Grid Ops Boundary Solver CorrLib Exec Limiters.\nImport ListNotations.\n"
          "Local Open Scope nat_scope.\n"
          "Definition eps0 : Qc := eps_default QcOps.\nDefinition fs0 : Qc -> Qc := fsign QcOps (eps1_default QcOps).\n")


def ql(a):
    return lib.qlist(np.asarray(a, dtype=float).ravel().tolist())


def coq_mesh(name, cname, fs, mesh):
    f = [list(x) for x in fs] + [[], []]
    if cname == "SphericalGrid3D":
        sinp = np.sin(mesh.cellcenters._y); sinf = np.sin(mesh.facecenters._y)
    else:
        sinp = sinf = []
    return (f"Definition {name} := mk_mesh {gen.COQCLS[cname]} {ql(f[0])} {ql(f[1])} {ql(f[2])} "
            f"{lib.q_of(float(np.pi))} {ql(sinp)} {ql(sinf)}.\n")


def coq_rows(M):
    M = M.tocsr()
    M.sum_duplicates()
    out = []
    for r in range(M.shape[0]):
        ent = []
        for k in range(M.indptr[r], M.indptr[r + 1]):
            v = float(M.data[k])
            if v != 0.0:
                ent.append(f"({int(M.indices[k])}, {lib.q_of(v)})")
        out.append("[" + "; ".join(ent) + "]")
    return "[" + ";\n ".join(out) + "]"


def fv(name, mname, arrs):
    return f"Definition {name} := fvar_of {mname} {ql(arrs[0])} {ql(arrs[1])} {ql(arrs[2])}.\n"


def finite(*objs):
    for o in objs:
        a = o.data if hasattr(o, "tocsr") else np.asarray(o, dtype=float)
        if not np.all(np.isfinite(a)):
            return False
    return True


class Emitter:
    def __init__(self, suite):
        self.suite = suite
        self.files = []          # (name, text)
        self.cur = []
        self.verdicts = []       # names in current file
        self.labels = []         # labels for the current file
        self.all_labels = {}     # file -> labels
        self.n = 0
        self.size = 0

    def add(self, defs, verdict_exprs, label):
        """defs: coq text; verdict_exprs: list of (what, bool-expr)"""
        self.cur.append(defs)
        self.size += len(defs)
        for what, e in verdict_exprs:
            vn = f"v{self.n}"
            self.n += 1
            self.cur.append(f"Definition {vn} : bool := {e}.\n")
            self.size += len(e)
            self.verdicts.append(vn)
            lab = dict(label); lab["what"] = what
            self.labels.append(lab)
        if self.size > 400000 or len(self.verdicts) >= 60:
            self.flush()

    def flush(self):
        if not self.verdicts:
            return
        name = f"{self.suite}_{len(self.files)}"
        txt = HEADER + "".join(self.cur) + "Eval vm_compute in (report [" + "; ".join(self.verdicts) + "]).\n"
        self.files.append((name, txt))
        self.all_labels[name] = self.labels
        self.cur, self.verdicts, self.labels, self.size = [], [], [], 0

    def run(self):
        self.flush()
        res = lib.coq_eval_many(self.files, timeout=900)
        bad, nchecks, errors = [], 0, []
        for name, _ in self.files:
            rc, out = res[name]
            rep = lib.parse_report(out) if rc == 0 else None
            if rep is None:
                errors.append({"file": name, "out": out[-600:]})
                continue
            nchecks += rep[0]
            for i in rep[1]:
                bad.append(self.all_labels[name][i])
        return nchecks, bad, errors


def case_key(cname, fs, *arrs):
    h = hashlib.sha1()
    h.update(cname.encode())
    for f in fs: h.update(np.asarray(f, dtype=float).tobytes())
    for a in arrs: h.update(np.asarray(a, dtype=float).tobytes())
    return h.hexdigest()[:16]


def ncases(tier):
    return 5 if tier == "quick" else 40


def nmax(tier):
    return 3 if tier == "quick" else 5


def iter_cases(rng, tier, pf, classes=None):
    for cname in (classes or gen.CLASSES):
        for k in range(ncases(tier)):
            fs = gen.mesh_case(rng, cname, nmax=nmax(tier), uniform=(k % 5 == 4), nmin=(2 if k == 0 else 1), big=(k % 20 == 1))
            mesh = gen.build_mesh(pf, cname, fs)
            yield cname, fs, mesh, k


def mat_axes(ret):
    """builder return value -> (M, [Mx, My, Mz])"""
    if isinstance(ret, tuple):
        return ret[0], list(ret[1:])
    return ret, [ret]


def run_suite(suite, tier, seed):
    import pyfvtool as pf
    from pyfvtool import diffusion as dmod, advection as amod, calculus as cmod
    rng = random.Random(f"{suite}-{seed}")
    em = Emitter(suite)
    keys, samples, dist = [], [], {}
    ncase = 0
    skipped = []
    for cname, fs, mesh, k in iter_cases(rng, tier, pf):
        d = gen.DIM[cname]
        mn = f"m{ncase}"
        defs = coq_mesh(mn, cname, fs, mesh)
        label = {"cls": cname, "faces": [list(map(float, f)) for f in fs]}
        ver = []
        try:
            with np.errstate(all="ignore"):
                if suite == "diffusion":
                    arrs = gen.face_arrays(rng, mesh, lo=0.0, hi=3.0, p0=0.15)
                    D = pf.FaceVariable(mesh, *arrs)
                    M = pf.diffusionTerm(D)
                    _, Ms = mat_axes(getattr(dmod, "diffusionTerm" + SUFFIX[cname])(D))
                    defs += fv(f"D{ncase}", mn, arrs)
                    co = lambda w: f"(diff{w} QcOps {mn} D{ncase})"
                    ver.append(("diffusionTerm", f"check_matrix {mn} (stencil_row QcOps {mn} {co('AW')} {co('AP')} {co('AE')}) {coq_rows(M)}"))
                    if d > 1:
                        for a in range(d):
                            ver.append((f"diffusionTerm{SUFFIX[cname]}[M{'xyz'[a]}]",
                                        f"check_matrix {mn} (axis_row QcOps {mn} {co('AW')} {co('AP')} {co('AE')} {AXN[a]}) {coq_rows(Ms[a])}"))
                    label["D"] = [a.tolist() for a in arrs]
                    ok = finite(M)
                elif suite == "conv_central":
                    arrs = gen.face_arrays(rng, mesh)
                    u = pf.FaceVariable(mesh, *arrs)
                    M = pf.convectionTerm(u)
                    _, Ms = mat_axes(getattr(amod, "convectionTerm" + SUFFIX[cname])(u))
                    defs += fv(f"u{ncase}", mn, arrs)
                    co = lambda w: f"(cen{w} QcOps {mn} u{ncase})"
                    ver.append(("convectionTerm", f"check_matrix {mn} (stencil_row QcOps {mn} {co('AW')} {co('AP')} {co('AE')}) {coq_rows(M)}"))
                    if d > 1:
                        for a in range(d):
                            ver.append((f"convectionTerm{SUFFIX[cname]}[M{'xyz'[a]}]",
                                        f"check_matrix {mn} (axis_row QcOps {mn} {co('AW')} {co('AP')} {co('AE')} {AXN[a]}) {coq_rows(Ms[a])}"))
                    label["u"] = [a.tolist() for a in arrs]
                    ok = finite(M)
                elif suite == "conv_upwind":
                    arrs = gen.face_arrays(rng, mesh)
                    u = pf.FaceVariable(mesh, *arrs)
                    # separate upwind field: never exactly zero where u is non-zero (see known finding on zero u_upwind)
                    arrs2 = tuple(np.where(a == 0, 0.0, np.where(np.array([rng.random() < 0.5 for _ in range(a.size)]).reshape(a.shape), 1.0, -1.0)) if a.size else a for a in arrs)
                    uup = pf.FaceVariable(mesh, *arrs2)
                    defs += fv(f"u{ncase}", mn, arrs) + fv(f"w{ncase}", mn, arrs2)
                    label["u"] = [a.tolist() for a in arrs]; label["u_upwind"] = [a.tolist() for a in arrs2]
                    ok = True
                    for tag, args, up in (("", (), f"u{ncase}"), ("+u_upwind", (uup,), f"w{ncase}")):
                        M = pf.convectionUpwindTerm(u, *args)
                        _, Ms = mat_axes(getattr(amod, "convectionUpwindTerm" + SUFFIX[cname])(u, *args))
                        co = lambda w: f"(upw{w} QcOps {mn} u{ncase} {up})"
                        ver.append(("convectionUpwindTerm" + tag, f"check_matrix {mn} (stencil_row QcOps {mn} {co('AW')} {co('AP')} {co('AE')}) {coq_rows(M)}"))
                        if d > 1:
                            for a in range(d):
                                ver.append((f"convectionUpwindTerm{SUFFIX[cname]}{tag}[M{'xyz'[a]}]",
                                            f"check_matrix {mn} (axis_row QcOps {mn} {co('AW')} {co('AP')} {co('AE')} {AXN[a]}) {coq_rows(Ms[a])}"))
                        ok = ok and finite(M)
                elif suite == "tvd":
                    arrs = gen.face_arrays(rng, mesh)
                    u = pf.FaceVariable(mesh, *arrs)
                    ph = gen.cell_array(rng, mesh)
                    phi = pf.CellVariable(mesh, ph)
                    flname = rng.choice(["SUPERBEE", "Koren", "VanLeer", "CHARM", "MinMod", "ospre", "UMIST", "HCUS", "VanAlbada1", "QUICK"])
                    FL = pf.fluxLimiter(flname)
                    defs += fv(f"u{ncase}", mn, arrs) + f"Definition p{ncase} := cvar_of {mn} {ql(phi._value)}.\n"
                    label.update({"u": [a.tolist() for a in arrs], "phi_with_ghosts": phi._value.tolist(), "limiter": flname})
                    rhs = pf.convectionTVDupwindRHSTerm(u, phi, FL)
                    ret = getattr(amod, "convectionTvdRHS" + SUFFIX[cname])(u, phi, FL)
                    fl = f'(FL_dispatch QcOps "{flname}"%string eps0)'
                    ver.append(("convectionTVDupwindRHSTerm", f"check_cvec {mn} (tvdrhs QcOps fs0 {fl} {mn} u{ncase} u{ncase} p{ncase}) {ql(rhs)}"))
                    if d > 1:
                        for a in range(d):
                            ver.append((f"convectionTvdRHS{SUFFIX[cname]}[RHS{'xyz'[a]}]",
                                        f"check_cvec {mn} (tvdrow QcOps fs0 {fl} {mn} u{ncase} u{ncase} p{ncase} {AXN[a]}) {ql(ret[1 + a])}"))
                    ok = finite(rhs)
                elif suite == "divergence":
                    arrs = gen.face_arrays(rng, mesh)
                    Fv = pf.FaceVariable(mesh, *arrs)
                    rhs = pf.divergenceTerm(Fv)
                    ret = getattr(cmod, "divergenceTerm" + SUFFIX[cname])(Fv)
                    defs += fv(f"F{ncase}", mn, arrs)
                    label["F"] = [a.tolist() for a in arrs]
                    ver.append(("divergenceTerm", f"check_cvec {mn} (divergence QcOps {mn} F{ncase}) {ql(rhs)}"))
                    if d > 1:
                        for a in range(d):
                            ver.append((f"divergenceTerm{SUFFIX[cname]}[{'xyz'[a]}]",
                                        f"check_cvec {mn} (divrow QcOps {mn} F{ncase} {AXN[a]}) {ql(ret[1 + a])}"))
                    ok = finite(rhs)
                elif suite == "gradient":
                    ph = gen.cell_array(rng, mesh)
                    phi = pf.CellVariable(mesh, ph)
                    g = pf.gradientTerm(phi)
                    defs += f"Definition p{ncase} := cvar_of {mn} {ql(phi._value)}.\n"
                    label["phi_with_ghosts"] = phi._value.tolist()
                    ver.append(("gradientTerm", f"check_fvar {mn} (gradient QcOps {mn} p{ncase}) {ql(g._xvalue)} {ql(g._yvalue)} {ql(g._zvalue)}"))
                    arrs = (ph,)
                    ok = finite(g._xvalue, g._yvalue, g._zvalue)
                elif suite == "means":
                    ph = gen.cell_array(rng, mesh, p0=(0.25 if k % 2 else 0.0))
                    if k % 3 == 0:
                        ph = np.abs(ph) + 0.25
                    phi = pf.CellVariable(mesh, ph)
                    arrs = gen.face_arrays(rng, mesh, p0=0.25)
                    u = pf.FaceVariable(mesh, *arrs)
                    defs += f"Definition p{ncase} := cvar_of {mn} {ql(phi._value)}.\n" + fv(f"u{ncase}", mn, arrs)
                    label.update({"phi_with_ghosts": phi._value.tolist(), "u": [a.tolist() for a in arrs]})
                    ok = True
                    for fn, model in (("linearMean", f"linmean QcOps {mn} p{ncase}"), ("arithmeticMean", f"arithmean QcOps {mn} p{ncase}")):
                        g = getattr(pf, fn)(phi)
                        ver.append((fn, f"check_fvar {mn} ({model}) {ql(g._xvalue)} {ql(g._yvalue)} {ql(g._zvalue)}"))
                    # harmonic mean: non-negative data with exact zeros (mixed signs make the true harmonic mean infinite)
                    phn = pf.CellVariable(mesh, np.abs(ph))
                    defs += f"Definition pn{ncase} := cvar_of {mn} {ql(phn._value)}.\n"
                    g = pf.harmonicMean(phn)
                    gx = [np.nan_to_num(np.asarray(x, dtype=float), nan=-777.0, posinf=-777.0, neginf=-777.0) for x in (g._xvalue, g._yvalue, g._zvalue)]
                    ver.append(("harmonicMean", f"check_fvar {mn} (harmmean QcOps {mn} pn{ncase}) {ql(gx[0])} {ql(gx[1])} {ql(gx[2])}"))
                    g = pf.upwindMean(phi, u)
                    ver.append(("upwindMean", f"check_fvar {mn} (upwindmean QcOps {mn} p{ncase} u{ncase}) {ql(g._xvalue)} {ql(g._yvalue)} {ql(g._zvalue)}"))
                    arrs = arrs + (ph,)
                else:
                    raise ValueError(suite)
        except Exception:
            skipped.append({"cls": cname, "what": suite, "reason": "implementation raised", "trace": traceback.format_exc()[-800:], "label": label})
            ncase += 1
            continue
        if not ok and suite != "means":
            skipped.append({"cls": cname, "what": suite, "reason": "non-finite output", "label": label})
            ncase += 1
            continue
        em.add(defs, ver, label)
        if gen.nontrivial(fs, *arrs):
            keys.append(case_key(cname, fs, *arrs))
        if len(samples) < 2 and ncase % 7 == 3:
            samples.append(label)
        dist[cname] = dist.get(cname, 0) + 1
        dist["N=" + "x".join(str(len(f) - 1) for f in fs)] = dist.get("N=" + "x".join(str(len(f) - 1) for f in fs), 0) + 1
        ncase += 1
    nchecks, bad, errors = em.run()
    return {"suite": suite, "cases": ncase, "checks": nchecks, "bad": bad, "errors": errors, "skipped": skipped,
            "keys": sorted(set(keys)), "samples": samples, "dist": dist}
