(* Discrete comparison principle and l-infinity stability of the assembled operator
        (L x)(c) = kap(c) x(c) + sum_a [ -diffusion_a(D) + upwind_a(u) ] x (c),    kap > 0, D >= 0, u discretely divergence-free,
   on EVERY grid class and dimension (the generic stencils of Model/Ops.v), with Dirichlet, no-flux and periodic closures.

     comparison_upper :  L z = r,  r <= kap * E            ==>  z <= E
     stability        :  L x = f,  L e = g, |f - g| <= kap * E  ==>  |x - e| <= E

   Everything the properties say about limits and errors is an instance (Props/C02, C04, C07, C12):
     uniqueness (f = g), the maximum principle (r = alpha/dt * old), convergence = consistency + this stability bound,
     dt -> 0 and dt -> infinity limits with explicit rates, implicit-vs-explicit O(dt^2). *)
From Coq Require Import Reals Lra Psatz Arith List Bool Lia.
From PFV Require Import OField KOps Grid Ops Boundary Solver StencilThy ConservThy MeasureThy TermsThy MaxPrincipleThy ExactnessThy MaxPrincipleModel.
Import ListNotations.
Local Open Scope R_scope.

Definition Lrow (m : Mesh ROps) (D u : fvar ROps) (kap x : cvar ROps) (c : cell) : R :=
  kap c * x c + rsuml (fun a => axis_term m D u x a c) (active_axes ROps m).

Lemma Lrow_sub m D u kap x y c : Lrow m D u kap (fun c => x c - y c) c = Lrow m D u kap x c - Lrow m D u kap y c.
Proof. unfold Lrow. rewrite rsuml_axis_term_sub. ring. Qed.
Lemma Lrow_neg m D u kap x c : Lrow m D u kap (fun c => - x c) c = - Lrow m D u kap x c.
Proof. unfold Lrow. rewrite rsuml_axis_term_neg. ring. Qed.

Section Comparison.
Variable m : Mesh ROps.
Variable D u : fvar ROps.
Variable kap z r : cvar ROps.
Variable E : R.
Variable cells : list cell.

Hypothesis Hne : cells <> [].
Hypothesis Hcells : forall c a, In c cells -> In a (active_axes ROps m) ->
  (1 <= cidx a c <= mN ROps m a)%nat /\ signs_ok m D c a.
Hypothesis Hrow : forall c, In c cells -> Lrow m D u kap z c = r c.
Hypothesis Hdiv : forall c, In c cells -> rsuml (fun a => divrow ROps m u a c) (active_axes ROps m) = 0.
Hypothesis Hkap : forall c, In c cells -> 0 < kap c.
Hypothesis Hr : forall c, In c cells -> r c <= kap c * E.
(* a neighbour along an active axis is an unknown, the periodic image of an unknown, or a ghost cell that cannot exceed a cell above E *)
Definition nb_upper (c nb : cell) : Prop :=
  In nb cells \/ (exists c', In c' cells /\ z nb = z c') \/ (E < z c -> z nb <= z c).
Hypothesis Hnbr : forall c a, In c cells -> In a (active_axes ROps m) -> nb_upper c (cdn a c) /\ nb_upper c (cup a c).

Theorem comparison_upper : forall c, In c cells -> z c <= E.
Proof.
  destruct (list_argmax z cells Hne) as (k & Hk & Hmax).
  assert (Hzk : z k <= E).
  { destruct (Rle_dec (z k) E) as [H|H]; [exact H|]. apply Rnot_le_lt in H. exfalso.
    assert (Hax : rsuml (fun a => divrow ROps m u a k * z k) (active_axes ROps m) <= rsuml (fun a => axis_term m D u z a k) (active_axes ROps m)).
    { apply rsuml_ge. intros a Ha. destruct (Hcells k a Hk Ha) as [Hi Hs].
      destruct (axis_flux_form m D u z a k Hi Hs) as (wdn & wup & W0 & W1 & Eq).
      unfold axis_term. rewrite Eq.
      destruct (Hnbr k a Hk Ha) as [Hd Hu].
      assert (z (cdn a k) <= z k).
      { destruct Hd as [Hd|[(c' & Hc' & Ec')|Hd]]; [apply Hmax; exact Hd|rewrite Ec'; apply Hmax; exact Hc'|apply Hd; exact H]. }
      assert (z (cup a k) <= z k).
      { destruct Hu as [Hu|[(c' & Hc' & Ec')|Hu]]; [apply Hmax; exact Hu|rewrite Ec'; apply Hmax; exact Hc'|apply Hu; exact H]. }
      nra. }
    rewrite rsuml_scal, (Hdiv k Hk) in Hax.
    pose proof (Hrow k Hk) as Eq. unfold Lrow in Eq. pose proof (Hkap k Hk) as Hp. pose proof (Hr k Hk) as Hrk.
    assert (kap k * E < kap k * z k) by (apply Rmult_lt_compat_l; assumption).
    lra. }
  intros c Hc. pose proof (Hmax c Hc). lra.
Qed.
End Comparison.

(* two-sided version: boundary closures in homogeneous form (the difference of two fields obeying the same boundary rows) *)
Definition nb_homog (cells : list cell) (z : cvar ROps) (c nb : cell) : Prop :=
  In nb cells \/ (exists c', In c' cells /\ z nb = z c') \/ (exists rho, rho <= 1 /\ z nb = rho * z c).
(* rho = 1: no-flux;  rho = -1: Dirichlet;  rho = (a/h - b/2)/(a/h + b/2) <= 1: Robin with b and a/h (outward normal) of one sign *)

Theorem comparison_abs (m : Mesh ROps) (D u : fvar ROps) (kap z r : cvar ROps) (E : R) (cells : list cell) :
  cells <> [] ->
  (forall c a, In c cells -> In a (active_axes ROps m) -> (1 <= cidx a c <= mN ROps m a)%nat /\ signs_ok m D c a) ->
  (forall c, In c cells -> Lrow m D u kap z c = r c) ->
  (forall c, In c cells -> rsuml (fun a => divrow ROps m u a c) (active_axes ROps m) = 0) ->
  (forall c, In c cells -> 0 < kap c) ->
  0 <= E -> (forall c, In c cells -> Rabs (r c) <= kap c * E) ->
  (forall c a, In c cells -> In a (active_axes ROps m) -> nb_homog cells z c (cdn a c) /\ nb_homog cells z c (cup a c)) ->
  forall c, In c cells -> Rabs (z c) <= E.
Proof.
  intros Hne Hcells Hrow Hdiv Hkap HE Hr Hnbr c Hc.
  assert (Hup : z c <= E).
  { apply (comparison_upper m D u kap z r E cells Hne Hcells Hrow Hdiv Hkap); [| |exact Hc].
    - intros c0 Hc0. pose proof (Hr c0 Hc0) as H. pose proof (Rle_abs (r c0)). lra.
    - intros c0 a Hc0 Ha. destruct (Hnbr c0 a Hc0 Ha) as [Hd Hu]. unfold nb_upper. split.
      + destruct Hd as [Hd|[Hd|(rho & Hrho & Hd)]]; [left; exact Hd|right; left; exact Hd|right; right; intros; rewrite Hd; nra].
      + destruct Hu as [Hu|[Hu|(rho & Hrho & Hu)]]; [left; exact Hu|right; left; exact Hu|right; right; intros; rewrite Hu; nra]. }
  assert (Hlo : - z c <= E).
  { apply (comparison_upper m D u kap (fun c0 => - z c0) (fun c0 => - r c0) E cells Hne Hcells); [| | | | |exact Hc].
    - intros c0 Hc0. rewrite Lrow_neg, (Hrow c0 Hc0). reflexivity.
    - exact Hdiv.
    - exact Hkap.
    - intros c0 Hc0. pose proof (Hr c0 Hc0) as H. pose proof (Rle_abs (- r c0)) as H2. rewrite Rabs_Ropp in H2. lra.
    - intros c0 a Hc0 Ha. destruct (Hnbr c0 a Hc0 Ha) as [Hd Hu]. unfold nb_upper. split.
      + destruct Hd as [Hd|[(c' & Hc' & Ec')|(rho & Hrho & Hd)]];
          [left; exact Hd|right; left; exists c'; split; [exact Hc'|rewrite Ec'; reflexivity]|right; right; intros; rewrite Hd; nra].
      + destruct Hu as [Hu|[(c' & Hc' & Ec')|(rho & Hrho & Hu)]];
          [left; exact Hu|right; left; exists c'; split; [exact Hc'|rewrite Ec'; reflexivity]|right; right; intros; rewrite Hu; nra]. }
  apply Rabs_le. lra.
Qed.

(* l-infinity stability: two fields satisfying the rows with right-hand sides f and g, and the same boundary relations *)
Theorem stability (m : Mesh ROps) (D u : fvar ROps) (kap x e f g : cvar ROps) (E : R) (cells : list cell) :
  cells <> [] ->
  (forall c a, In c cells -> In a (active_axes ROps m) -> (1 <= cidx a c <= mN ROps m a)%nat /\ signs_ok m D c a) ->
  (forall c, In c cells -> Lrow m D u kap x c = f c) ->
  (forall c, In c cells -> Lrow m D u kap e c = g c) ->
  (forall c, In c cells -> rsuml (fun a => divrow ROps m u a c) (active_axes ROps m) = 0) ->
  (forall c, In c cells -> 0 < kap c) ->
  0 <= E -> (forall c, In c cells -> Rabs (f c - g c) <= kap c * E) ->
  (forall c a, In c cells -> In a (active_axes ROps m) ->
     nb_homog cells (fun c => x c - e c) c (cdn a c) /\ nb_homog cells (fun c => x c - e c) c (cup a c)) ->
  forall c, In c cells -> Rabs (x c - e c) <= E.
Proof.
  intros Hne Hcells Hx He Hdiv Hkap HE Hfg Hnbr c Hc.
  apply (comparison_abs m D u kap (fun c0 => x c0 - e c0) (fun c0 => f c0 - g c0) E cells Hne Hcells); try assumption.
  intros c0 Hc0. rewrite Lrow_sub, (Hx c0 Hc0), (He c0 Hc0). reflexivity.
Qed.

Lemma rsuml_axis_term_affine (m : Mesh ROps) (D u : fvar ROps) (old w xe : cvar ROps) (dt : R) c0 (l : list axis) :
  (forall c, xe c = old c + dt * w c) ->
  rsuml (fun a => axis_term m D u xe a c0) l
  = rsuml (fun a => axis_term m D u old a c0) l + dt * rsuml (fun a => axis_term m D u w a c0) l.
Proof.
  intros Hxe. unfold rsuml. induction l as [|a l IH]; cbn [map fold_right]; [lra|]. rewrite IH.
  assert (E2 : axis_term m D u xe a c0 = axis_term m D u old a c0 + dt * axis_term m D u w a c0).
  { unfold axis_term, apply_axis. rewrite !Hxe. cbn [kadd kmul ROps K]. ring. }
  rewrite E2. lra.
Qed.

(* ---------- instances ---------- *)
Section Instances.
Variable m : Mesh ROps.
Variable D u : fvar ROps.
Variable cells : list cell.
Hypothesis Hne : cells <> [].
Hypothesis Hcells : forall c a, In c cells -> In a (active_axes ROps m) ->
  (1 <= cidx a c <= mN ROps m a)%nat /\ signs_ok m D c a.
Hypothesis Hdiv : forall c, In c cells -> rsuml (fun a => divrow ROps m u a c) (active_axes ROps m) = 0.

(* the spatial operator of  -diffusionTerm(D) + convectionUpwindTerm(u) + linearSourceTerm(beta) *)
Definition Srow (beta x : cvar ROps) (c : cell) : R :=
  rsuml (fun a => axis_term m D u x a c) (active_axes ROps m) + beta c * x c.
(* backward-Euler row and steady row with source s *)
Definition be_row (alpha beta s old : cvar ROps) (dt : R) (x : cvar ROps) (c : cell) : Prop :=
  alpha c / dt * (x c - old c) + Srow beta x c = s c.
Definition steady_row (beta s : cvar ROps) (y : cvar ROps) (c : cell) : Prop := Srow beta y c = s c.

Lemma be_row_Lrow alpha beta s old dt x c : be_row alpha beta s old dt x c ->
  Lrow m D u (fun c => alpha c / dt + beta c) x c = s c + alpha c / dt * old c.
Proof. unfold be_row, Srow, Lrow. intros H. lra. Qed.

(* C12, dt -> infinity: distance of the backward-Euler step from the steady solution.
   With W >= |old - y| it is at most  W * A / (A + dt * B)  for A >= alpha, 0 < B <= beta: tends to 0 as dt -> infinity. *)
Theorem step_to_steady (alpha beta s old x y : cvar ROps) (dt W A B : R) :
  0 < dt -> 0 <= W -> 0 < B ->
  (forall c, In c cells -> 0 < alpha c <= A /\ B <= beta c) ->
  (forall c, In c cells -> be_row alpha beta s old dt x c) ->
  (forall c, In c cells -> steady_row beta s y c) ->
  (forall c, In c cells -> Rabs (old c - y c) <= W) ->
  (forall c a, In c cells -> In a (active_axes ROps m) ->
     nb_homog cells (fun c => x c - y c) c (cdn a c) /\ nb_homog cells (fun c => x c - y c) c (cup a c)) ->
  forall c, In c cells -> Rabs (x c - y c) <= W * A / (A + dt * B).
Proof.
  intros Hdt HW HB Hco Hx Hy Hold Hnbr c Hc.
  assert (HA : 0 < A) by (destruct (Hco c Hc) as [[? ?] _]; lra).
  assert (Hden : 0 < A + dt * B) by nra.
  apply (stability m D u (fun c => alpha c / dt + beta c) x y
           (fun c => s c + alpha c / dt * old c) (fun c => s c + alpha c / dt * y c) (W * A / (A + dt * B)) cells Hne Hcells); try assumption.
  - intros c0 Hc0. apply be_row_Lrow. exact (Hx c0 Hc0).
  - intros c0 Hc0. pose proof (Hy c0 Hc0) as H. unfold steady_row, Srow in H. unfold Lrow. lra.
  - intros c0 Hc0. destruct (Hco c0 Hc0) as [[Ha _] Hb]. assert (0 < alpha c0 / dt) by (apply Rdiv_lt_0_compat; assumption). lra.
  - unfold Rdiv. apply Rmult_le_pos; [apply Rmult_le_pos; lra|]. apply Rlt_le, Rinv_0_lt_compat; exact Hden.
  - intros c0 Hc0. destruct (Hco c0 Hc0) as [[Ha HaA] Hb]. pose proof (Hold c0 Hc0) as Ho.
    replace (s c0 + alpha c0 / dt * old c0 - (s c0 + alpha c0 / dt * y c0)) with (alpha c0 / dt * (old c0 - y c0)) by lra.
    assert (Hq : 0 < alpha c0 / dt) by (apply Rdiv_lt_0_compat; assumption).
    rewrite Rabs_mult, (Rabs_pos_eq (alpha c0 / dt)) by lra.
    (* alpha/dt * W <= (alpha/dt + beta) * W*A/(A+dt*B)   <==  alpha*(A + dt B) <= (alpha + dt*beta) * A *)
    apply Rle_trans with (alpha c0 / dt * W); [apply Rmult_le_compat_l; lra|].
    assert (Hkey : alpha c0 / dt * W * (A + dt * B) <= (alpha c0 / dt + beta c0) * (W * A)).
    { assert (E1 : alpha c0 / dt * W * (A + dt * B) = W * (alpha c0 * A / dt + alpha c0 * B)) by (field; lra).
      assert (E2 : (alpha c0 / dt + beta c0) * (W * A) = W * (alpha c0 * A / dt + beta c0 * A)) by (field; lra).
      rewrite E1, E2. apply Rmult_le_compat_l; [exact HW|]. nra. }
    replace ((alpha c0 / dt + beta c0) * (W * A / (A + dt * B))) with ((alpha c0 / dt + beta c0) * (W * A) / (A + dt * B)) by (field; lra).
    apply (Rmult_le_reg_r (A + dt * B)); [exact Hden|].
    replace ((alpha c0 / dt + beta c0) * (W * A) / (A + dt * B) * (A + dt * B)) with ((alpha c0 / dt + beta c0) * (W * A)) by (field; lra).
    exact Hkey.
Qed.

(* C12, dt -> 0: distance of the backward-Euler step from the old field, old obeying the same boundary relations:
   at most dt * P / a0  where P bounds the steady residual of the old field and a0 <= alpha *)
Theorem step_to_old (alpha beta s old x : cvar ROps) (dt P a0 : R) :
  0 < dt -> 0 <= P -> 0 < a0 ->
  (forall c, In c cells -> a0 <= alpha c /\ 0 <= beta c) ->
  (forall c, In c cells -> be_row alpha beta s old dt x c) ->
  (forall c, In c cells -> Rabs (s c - Srow beta old c) <= P) ->
  (forall c a, In c cells -> In a (active_axes ROps m) ->
     nb_homog cells (fun c => x c - old c) c (cdn a c) /\ nb_homog cells (fun c => x c - old c) c (cup a c)) ->
  forall c, In c cells -> Rabs (x c - old c) <= dt * P / a0.
Proof.
  intros Hdt HP Ha0 Hco Hx Hres Hnbr c Hc.
  apply (stability m D u (fun c => alpha c / dt + beta c) x old
           (fun c => s c + alpha c / dt * old c) (fun c => Srow beta old c + alpha c / dt * old c) (dt * P / a0) cells Hne Hcells); try assumption.
  - intros c0 Hc0. apply be_row_Lrow. exact (Hx c0 Hc0).
  - intros c0 Hc0. unfold Lrow, Srow. lra.
  - intros c0 Hc0. destruct (Hco c0 Hc0) as [Ha Hb]. assert (0 < alpha c0 / dt) by (apply Rdiv_lt_0_compat; lra). lra.
  - unfold Rdiv. apply Rmult_le_pos; [nra|]. apply Rlt_le, Rinv_0_lt_compat; exact Ha0.
  - intros c0 Hc0. destruct (Hco c0 Hc0) as [Ha Hb]. pose proof (Hres c0 Hc0) as Hr.
    replace (s c0 + alpha c0 / dt * old c0 - (Srow beta old c0 + alpha c0 / dt * old c0)) with (s c0 - Srow beta old c0) by lra.
    apply Rle_trans with P; [exact Hr|].
    assert (Hq : a0 / dt <= alpha c0 / dt + beta c0).
    { assert (a0 / dt <= alpha c0 / dt) by (unfold Rdiv; apply Rmult_le_compat_r; [apply Rlt_le, Rinv_0_lt_compat; exact Hdt|lra]). lra. }
    assert (E1 : P = a0 / dt * (dt * P / a0)) by (field; lra).
    rewrite E1 at 1. apply Rmult_le_compat_r; [|exact Hq].
    unfold Rdiv. apply Rmult_le_pos; [nra|]. apply Rlt_le, Rinv_0_lt_compat; exact Ha0.
Qed.

(* C12: implicit step vs explicit step  x_e = old + dt * w  (w = (s - S old)/alpha on the unknowns, boundary values re-imposed):
   |x_i - x_e| <= dt^2 * Q / a0,  Q bounding the spatial operator applied to the increment field w *)
Theorem implicit_vs_explicit (alpha beta s old xi xe w : cvar ROps) (dt Q a0 : R) :
  0 < dt -> 0 <= Q -> 0 < a0 ->
  (forall c, In c cells -> a0 <= alpha c /\ 0 <= beta c) ->
  (forall c, In c cells -> be_row alpha beta s old dt xi c) ->
  (forall c, In c cells -> alpha c * w c = s c - Srow beta old c) ->
  (forall c, xe c = old c + dt * w c) ->
  (forall c, In c cells -> Rabs (Srow beta w c) <= Q) ->
  (forall c a, In c cells -> In a (active_axes ROps m) ->
     nb_homog cells (fun c => xi c - xe c) c (cdn a c) /\ nb_homog cells (fun c => xi c - xe c) c (cup a c)) ->
  forall c, In c cells -> Rabs (xi c - xe c) <= dt * dt * Q / a0.
Proof.
  intros Hdt HQ Ha0 Hco Hx Hw Hxe HQb Hnbr c Hc.
  assert (Hlin : forall c0, Srow beta xe c0 = Srow beta old c0 + dt * Srow beta w c0).
  { intros c0. unfold Srow.
    pose proof (rsuml_axis_term_affine m D u old w xe dt c0 (active_axes ROps m) Hxe) as E1.
    rewrite E1, Hxe. ring. }
  apply (stability m D u (fun c => alpha c / dt + beta c) xi xe
           (fun c => s c + alpha c / dt * old c) (fun c => s c + alpha c / dt * old c + dt * Srow beta w c) (dt * dt * Q / a0) cells Hne Hcells); try assumption.
  - intros c0 Hc0. apply be_row_Lrow. exact (Hx c0 Hc0).
  - intros c0 Hc0. destruct (Hco c0 Hc0) as [Ha Hb]. pose proof (Hw c0 Hc0) as Hw0. pose proof (Hlin c0) as Hl.
    unfold Lrow. unfold Srow in *. rewrite Hxe in *.
    assert (E3 : alpha c0 / dt * (dt * w c0) = alpha c0 * w c0) by (field; lra).
    lra.
  - intros c0 Hc0. destruct (Hco c0 Hc0) as [Ha Hb]. assert (0 < alpha c0 / dt) by (apply Rdiv_lt_0_compat; lra). lra.
  - unfold Rdiv. apply Rmult_le_pos; [nra|]. apply Rlt_le, Rinv_0_lt_compat; exact Ha0.
  - intros c0 Hc0. destruct (Hco c0 Hc0) as [Ha Hb]. pose proof (HQb c0 Hc0) as Hq0.
    replace (s c0 + alpha c0 / dt * old c0 - (s c0 + alpha c0 / dt * old c0 + dt * Srow beta w c0)) with (- (dt * Srow beta w c0)) by lra.
    rewrite Rabs_Ropp, Rabs_mult, (Rabs_pos_eq dt) by lra.
    apply Rle_trans with (dt * Q); [apply Rmult_le_compat_l; lra|].
    assert (Hq : a0 / dt <= alpha c0 / dt + beta c0).
    { assert (a0 / dt <= alpha c0 / dt) by (unfold Rdiv; apply Rmult_le_compat_r; [apply Rlt_le, Rinv_0_lt_compat; exact Hdt|lra]). lra. }
    assert (E1 : dt * Q = a0 / dt * (dt * dt * Q / a0)) by (field; lra).
    rewrite E1. apply Rmult_le_compat_r; [|exact Hq].
    unfold Rdiv. apply Rmult_le_pos; [nra|]. apply Rlt_le, Rinv_0_lt_compat; exact Ha0.
Qed.

(* C02: convergence = consistency + stability.  e = the exact solution sampled at the cell centres (and extended to ghost cells by the
   same boundary relations); tau = its truncation error in the rows.  The error of the discrete solution is at most tau / kap. *)
Theorem error_bounded_by_truncation (kap s x e tau : cvar ROps) (T k0' : R) :
  0 <= T -> 0 < k0' ->
  (forall c, In c cells -> k0' <= kap c) ->
  (forall c, In c cells -> Lrow m D u kap x c = s c) ->
  (forall c, In c cells -> Lrow m D u kap e c = s c + tau c) ->
  (forall c, In c cells -> Rabs (tau c) <= T) ->
  (forall c a, In c cells -> In a (active_axes ROps m) ->
     nb_homog cells (fun c => x c - e c) c (cdn a c) /\ nb_homog cells (fun c => x c - e c) c (cup a c)) ->
  forall c, In c cells -> Rabs (x c - e c) <= T / k0'.
Proof.
  intros HT Hk Hkap Hx He Htau Hnbr c Hc.
  apply (stability m D u kap x e s (fun c => s c + tau c) (T / k0') cells Hne Hcells); try assumption.
  - intros c0 Hc0. pose proof (Hkap c0 Hc0). lra.
  - unfold Rdiv. apply Rmult_le_pos; [exact HT|]. apply Rlt_le, Rinv_0_lt_compat; exact Hk.
  - intros c0 Hc0. pose proof (Hkap c0 Hc0) as Hk0. pose proof (Htau c0 Hc0) as Ht.
    replace (s c0 - (s c0 + tau c0)) with (- tau c0) by lra. rewrite Rabs_Ropp.
    apply Rle_trans with T; [exact Ht|].
    assert (E1 : T = k0' * (T / k0')) by (field; lra). rewrite E1 at 1.
    apply Rmult_le_compat_r; [|exact Hk0].
    unfold Rdiv. apply Rmult_le_pos; [exact HT|]. apply Rlt_le, Rinv_0_lt_compat; exact Hk.
Qed.
End Instances.

(* the rates vanish in the limits *)
Lemma rate_to_steady_vanishes (W A B : R) : 0 <= W -> 0 < A -> 0 < B ->
  forall eps, 0 < eps -> exists T, 0 < T /\ forall dt, T < dt -> W * A / (A + dt * B) < eps.
Proof.
  intros HW HA HB eps He. exists (W * A / (B * eps) + 1).
  assert (Hq : 0 <= W * A / (B * eps)).
  { unfold Rdiv. apply Rmult_le_pos; [nra|]. apply Rlt_le, Rinv_0_lt_compat. nra. }
  split; [lra|]. intros dt Hdt.
  assert (Hden : 0 < A + dt * B) by nra.
  apply (Rmult_lt_reg_r (A + dt * B)); [exact Hden|].
  replace (W * A / (A + dt * B) * (A + dt * B)) with (W * A) by (field; lra).
  assert (E : W * A = W * A / (B * eps) * (B * eps)) by (field; lra).
  assert (W * A / (B * eps) * (B * eps) < dt * (B * eps)) by (apply Rmult_lt_compat_r; [nra|lra]).
  nra.
Qed.
Lemma rate_to_old_vanishes (P a0 : R) : 0 <= P -> 0 < a0 ->
  forall eps, 0 < eps -> exists d, 0 < d /\ forall dt, 0 < dt < d -> dt * P / a0 < eps.
Proof.
  intros HP Ha eps He. exists (eps * a0 / (P + 1)).
  assert (Hd : 0 < eps * a0 / (P + 1)) by (apply Rdiv_lt_0_compat; nra).
  split; [exact Hd|]. intros dt [H0 H1].
  apply (Rmult_lt_reg_r a0); [exact Ha|].
  replace (dt * P / a0 * a0) with (dt * P) by (field; lra).
  assert (E : eps * a0 / (P + 1) * (P + 1) = eps * a0) by (field; lra).
  assert (dt * (P + 1) < eps * a0 / (P + 1) * (P + 1)) by (apply Rmult_lt_compat_r; lra).
  nra.
Qed.

(* tie to the assembled system of Model/Solver.v: the interior rows of is_solution for the documented term lists *)
Theorem is_solution_be_row (m : Mesh ROps) (bc : BCs ROps) (D u : fvar ROps) (x alpha beta s old : cvar ROps) (dt : R) c :
  dt <> 0 ->
  is_solution ROps m bc [TTrans ROps alpha dt old; TDiff ROps (-1) D; TUpw ROps 1 u u; TLin ROps 1 beta; TConst ROps 1 s] x ->
  interior ROps m c = true ->
  be_row m D u alpha beta s old dt x c.
Proof.
  intros Hdt [H _] Hc. specialize (H c Hc).
  assert (EL : sys_lhs ROps m [TTrans ROps alpha dt old; TDiff ROps (-1) D; TUpw ROps 1 u u; TLin ROps 1 beta; TConst ROps 1 s] x c
               = alpha c / dt * x c
                 + (-1 * apply_stencil ROps m (diffAW ROps m D) (diffAP ROps m D) (diffAE ROps m D) x c
                    + (1 * apply_stencil ROps m (upwAW ROps m u u) (upwAP ROps m u u) (upwAE ROps m u u) x c + (1 * (beta c * x c) + (0 + 0))))) by reflexivity.
  assert (ER : sys_rhs ROps m [TTrans ROps alpha dt old; TDiff ROps (-1) D; TUpw ROps 1 u u; TLin ROps 1 beta; TConst ROps 1 s] c
               = alpha c * old c / dt + (0 + (0 + (0 + (1 * s c + 0))))) by reflexivity.
  rewrite EL, ER in H. clear EL ER.
  unfold be_row, Srow, axis_term. rewrite rsuml_split.
  change (ksum ROps (map (fun a => apply_axis ROps (diffAW ROps m D) (diffAP ROps m D) (diffAE ROps m D) x a c) (active_axes ROps m)))
    with (apply_stencil ROps m (diffAW ROps m D) (diffAP ROps m D) (diffAE ROps m D) x c).
  change (ksum ROps (map (fun a => apply_axis ROps (upwAW ROps m u u) (upwAP ROps m u u) (upwAE ROps m u u) x a c) (active_axes ROps m)))
    with (apply_stencil ROps m (upwAW ROps m u u) (upwAP ROps m u u) (upwAE ROps m u u) x c).
  generalize dependent (apply_stencil ROps m (diffAW ROps m D) (diffAP ROps m D) (diffAE ROps m D) x c).
  generalize dependent (apply_stencil ROps m (upwAW ROps m u u) (upwAP ROps m u u) (upwAE ROps m u u) x c).
  intros B A H.
  assert (E : alpha c / dt * x c - alpha c * old c / dt = alpha c / dt * (x c - old c)) by (field; exact Hdt).
  change (K ROps) with R in *. lra.
Qed.
Theorem is_solution_steady_row (m : Mesh ROps) (bc : BCs ROps) (D u : fvar ROps) (y beta s : cvar ROps) c :
  is_solution ROps m bc [TDiff ROps (-1) D; TUpw ROps 1 u u; TLin ROps 1 beta; TConst ROps 1 s] y ->
  interior ROps m c = true ->
  steady_row m D u beta s y c.
Proof.
  intros [H _] Hc. specialize (H c Hc).
  assert (EL : sys_lhs ROps m [TDiff ROps (-1) D; TUpw ROps 1 u u; TLin ROps 1 beta; TConst ROps 1 s] y c
               = (-1 * apply_stencil ROps m (diffAW ROps m D) (diffAP ROps m D) (diffAE ROps m D) y c
                    + (1 * apply_stencil ROps m (upwAW ROps m u u) (upwAP ROps m u u) (upwAE ROps m u u) y c + (1 * (beta c * y c) + (0 + 0))))) by reflexivity.
  assert (ER : sys_rhs ROps m [TDiff ROps (-1) D; TUpw ROps 1 u u; TLin ROps 1 beta; TConst ROps 1 s] c
               = (0 + (0 + (0 + (1 * s c + 0))))) by reflexivity.
  rewrite EL, ER in H. clear EL ER.
  unfold steady_row, Srow, axis_term. rewrite rsuml_split.
  change (ksum ROps (map (fun a => apply_axis ROps (diffAW ROps m D) (diffAP ROps m D) (diffAE ROps m D) y a c) (active_axes ROps m)))
    with (apply_stencil ROps m (diffAW ROps m D) (diffAP ROps m D) (diffAE ROps m D) y c).
  change (ksum ROps (map (fun a => apply_axis ROps (upwAW ROps m u u) (upwAP ROps m u u) (upwAE ROps m u u) y a c) (active_axes ROps m)))
    with (apply_stencil ROps m (upwAW ROps m u u) (upwAP ROps m u u) (upwAE ROps m u u) y c).
  generalize dependent (apply_stencil ROps m (diffAW ROps m D) (diffAP ROps m D) (diffAE ROps m D) y c).
  generalize dependent (apply_stencil ROps m (upwAW ROps m u u) (upwAP ROps m u u) (upwAE ROps m u u) y c).
  intros B A H.
  change (K ROps) with R in *. lra.
Qed.

(* the homogeneous ghost relation follows from the boundary rows: the difference of two fields obeying
   (b/2 + a/h) x_ghost + (b/2 - a/h) x_inner = c  (a/h signed with the outward normal) satisfies z_ghost = rho * z_inner, rho <= 1,
   whenever b and b/2 + a/h have one sign -- Dirichlet (a = 0), Neumann (b = 0) and Robin with a/h, b of one sign *)
Lemma robin_ghost_ratio (b aoh c xg xi eg ei : R) :
  b / 2 + aoh <> 0 -> 0 <= b * (b / 2 + aoh) ->
  (b / 2 + aoh) * xg + (b / 2 - aoh) * xi = c ->
  (b / 2 + aoh) * eg + (b / 2 - aoh) * ei = c ->
  exists rho, rho <= 1 /\ xg - eg = rho * (xi - ei).
Proof.
  intros Hd Hs Hx He. exists (- (b / 2 - aoh) / (b / 2 + aoh)). split.
  - assert (E : 1 - - (b / 2 - aoh) / (b / 2 + aoh) = b * (b / 2 + aoh) / ((b / 2 + aoh) * (b / 2 + aoh))) by (field; intro; apply Hd; lra).
    assert (0 < (b / 2 + aoh) * (b / 2 + aoh)) by nra.
    assert (0 <= b * (b / 2 + aoh) / ((b / 2 + aoh) * (b / 2 + aoh))).
    { unfold Rdiv. apply Rmult_le_pos; [exact Hs|]. apply Rlt_le, Rinv_0_lt_compat; assumption. }
    lra.
  - assert (E : (b / 2 + aoh) * (xg - eg) = - (b / 2 - aoh) * (xi - ei)) by lra.
    apply (Rmult_eq_reg_l (b / 2 + aoh)); [|exact Hd]. rewrite E. field. intro; apply Hd; lra.
Qed.
(* non-vacuity: a one-cell Cartesian mesh [0,1], D = 1, u = 0, kap = 1, homogeneous Dirichlet closure on both sides *)
Definition exR : Mesh ROps := mkMesh ROps G1 (fun _ => mkAxis ROps 1 (fun p => match p with O => 0 | S O => 1 | _ => 2 end)) PI (fun _ => 1) (fun _ => 1).
Definition exD : fvar ROps := fun _ _ => 1.
Definition exu : fvar ROps := fun _ _ => 0.
Definition exz : cvar ROps := fun c => match c with (S O, _, _) => 1 | _ => -1 end.
Lemma exu_max a c : umax ROps exu exu a c = 0. Proof. unfold umax. destruct (kltb ROps _ _); reflexivity. Qed.
Lemma exu_min a c : umin ROps exu exu a c = 0. Proof. unfold umin. destruct (kltb ROps _ _); reflexivity. Qed.
Example comparison_hyps_satisfiable :
  let cells := [(1, 0, 0)%nat] in
  cells <> [] /\
  (forall c a, In c cells -> In a (active_axes ROps exR) -> (1 <= cidx a c <= mN ROps exR a)%nat /\ signs_ok exR exD c a) /\
  (forall c, In c cells -> Lrow exR exD exu (fun _ => 1) exz c = 5) /\
  (forall c, In c cells -> rsuml (fun a => divrow ROps exR exu a c) (active_axes ROps exR) = 0) /\
  (forall c a, In c cells -> In a (active_axes ROps exR) -> nb_homog cells exz c (cdn a c) /\ nb_homog cells exz c (cup a c)) /\
  Rabs (exz (1, 0, 0)%nat) <= 5.
Proof.
  cbv zeta. split; [discriminate|]. split; [|split; [|split; [|split]]].
  - intros c a [<-|[]] [<-|[]]. split; [cbn; lia|]. constructor; cbn; unfold exD; lra.
  - intros c [<-|[]]. unfold Lrow, rsuml, axis_term, apply_axis. cbn. rewrite !exu_max, !exu_min. unfold exD. field_simplify. lra.
  - intros c [<-|[]]. unfold rsuml, divrow. cbn. unfold exu. field.
  - intros c a [<-|[]] [<-|[]]. split; right; right; exists (-1); cbn; split; lra.
  - cbn. rewrite Rabs_pos_eq; lra.
Qed.

(* uniqueness with every closure (Dirichlet, no-flux, Robin of one sign, periodic): stability with E = 0 *)
Theorem unique_general (m : Mesh ROps) (D u : fvar ROps) (kap x y f : cvar ROps) (cells : list cell) :
  cells <> [] ->
  (forall c a, In c cells -> In a (active_axes ROps m) -> (1 <= cidx a c <= mN ROps m a)%nat /\ signs_ok m D c a) ->
  (forall c, In c cells -> Lrow m D u kap x c = f c) ->
  (forall c, In c cells -> Lrow m D u kap y c = f c) ->
  (forall c, In c cells -> rsuml (fun a => divrow ROps m u a c) (active_axes ROps m) = 0) ->
  (forall c, In c cells -> 0 < kap c) ->
  (forall c a, In c cells -> In a (active_axes ROps m) ->
     nb_homog cells (fun c => x c - y c) c (cdn a c) /\ nb_homog cells (fun c => x c - y c) c (cup a c)) ->
  forall c, In c cells -> x c = y c.
Proof.
  intros Hne Hcells Hx Hy Hdiv Hkap Hnbr c Hc.
  assert (H : Rabs (x c - y c) <= 0).
  { apply (stability m D u kap x y f f 0 cells Hne Hcells Hx Hy Hdiv Hkap); try assumption; [lra|].
    intros c0 Hc0. replace (f c0 - f c0) with 0 by lra. rewrite Rabs_R0. pose proof (Hkap c0 Hc0). lra. }
  pose proof (Rabs_pos (x c - y c)). assert (E : Rabs (x c - y c) = 0) by lra.
  destruct (Req_dec (x c - y c) 0) as [E0|E0]; [lra|]. apply Rabs_no_R0 in E0. contradiction.
Qed.
